#!/usr/bin/env python3
"""development aid: tools/dbg_mismatches.py <PROP> [name-prefix]  (honours VERIF_REPO / VERIF_WORK)
prints every mismatch (all aspects, not only those of PROP) per definition of PROP's quick family"""
import os, random, sys
sys.path.insert(0, os.path.join(os.path.dirname(os.path.dirname(os.path.abspath(__file__))), 'lib'))
from common import seed, tier
from lex import crate as C, step as ST, regex as R, select
from mirse.exec import Program, Inconclusive
import lexcheck as LC
prop = sys.argv[1]
pref = sys.argv[2] if len(sys.argv) > 2 else ''
rng = random.Random(seed() * 7919 + int(prop[1:]))
defs, N, variants = select.select(prop, tier() == 'thorough', rng)
sel = [d for d in defs if d.name.startswith(pref)]
cr = C.LexCrate(sel, 'dbg-' + prop)
mir, drv = cr.build_all()
prog = Program(); prog.add_dump(mir); prog.add_dump(LC.util_mir())
R.BUILTINS.update(cr.builtin_ranges())
for i, d in enumerate(sel):
    if i in cr.errors:
        print(d.name, 'NOT EXPANDED'); continue
    h = ST.StepHarness(prog, i, d, min(N, d.nmax) if d.nmax else N)
    import time
    h.ex.deadline = time.process_time() + 60
    seen = {}
    try:
        for rho in range(len(d.rulesets)):
            for m in h.run_step(rho):
                k = ('+'.join(sorted(m.aspects)), ''.join(c for c in m.what if not c.isdigit())[:110])
                if k not in seen:
                    seen[k] = (rho, ST.concretize(h, m.model, m.detail.get('decisions', ())) if m.model is not None else None)
    except Inconclusive as e:
        print(d.name, 'INCONCLUSIVE', str(e)[:200])
    if seen:
        print('==', d.name); print(d.lexer_text('L'))
        for k, v in seen.items():
            print('   ', k, '| rho', v[0], '|', str(v[1])[:160])
