# one entry per seeded change; read by tools/mkmeta.py
seed('S-c11', 'C11', 'range_map.rs remove_ranges: `removed.end < old.start` became `<=` (a removed range ending exactly on the first code point of a piece is skipped)',
     'a difference a # b where a piece of b ends on the first code point of a piece of a, e.g. [0-9] # 0', ['C11'], ['C02'],
     'C11 reports 3 roles (post-condition fails at the boundary code point); the C02 lexer family has no such boundary and stays quiet')
seed('S-c10', 'C10', 'codegen.rs: reset_accepting_state() no longer runs before a directly-run action, only in the Return arm',
     'rule P prefix of rule Q ending in a dead-end accept, Q continues/skips/switches, next scan fails in a rewind state entered without an accept (join of "x" and ("x"|"w")"yz")',
     ['C10', 'C09', 'C01'], [], 'first C10 run missed it (family lacked the shape); caught after adding the stale-match family and attributing wrong items to the actions aspect')
seed('S-c03', 'C03', 'lexgen_util backtrack(): the no-saved-match arm no longer resets __initial_state',
     'failure in a non-Init rule set through backtrack() with no saved match (failed right context or join state), then two more matches', ['C03', 'C08'], [],
     'post-state check: __initial_state is not the Init entry after the error')
seed('S-c06', 'C06', 'codegen.rs: reset_accepting_state() before a directly-run action removed',
     'token via accepting state + direct accept leaves a stale saved match; a later call fails in a rewind state reached without an accept and re-emits the old prefix with its old span',
     ['C06', 'C09', 'C01'], [], 'first C06 run missed it; caught after following post-state disagreements one call further and attributing out-of-order token starts to the loc aspect')
seed('S-c05', 'C05', 'lexgen_util backtrack(): `__done = false` moved before the match, so it is also cleared when there is no saved match',
     'input ends inside a lexeme in a rewind state with no saved match and Init has a `$` rule: the `$` rule fires after the end-of-input error', ['C05'], ['C07'],
     'first C05 run missed it (no definition failed through backtrack() at end of input); caught after adding `$`-variants of the join family; the done flag is compared after every call')
seed('S-c01', 'C01', 'codegen.rs reset_accepting_state() removed before directly-run actions + Lexer::reset_match also clears last_match (equivalent only when the action resets the match)',
     'Q = P-prefix rule with continue_/switch action (no reset_match), next scan fails in a join state', ['C01', 'C10'], [], '')
seed('S-c08', 'C08', 'lexgen_util backtrack(): the no-saved-match arm no longer resets __state (keeps __initial_state = 0)',
     'InvalidToken through backtrack() with a non-zero stale __state; the next single lexeme is lexed from the stale state', ['C08'], ['C03'], '4 roles reported by C08 (state after the call is not the Init entry)')
seed('S-c04', 'C04', 'codegen.rs generate_right_ctx_state_char_arms: range guard to a non-accepting context state written as `b <= x && x < e` (upper bound excluded)',
     'a context with two or more steps whose non-final step is a range, and the input holds exactly the last character of that range (e.g. `@` > [a-z]+ `(` on "@z(")',
     ['C04'], [], 'first C04 run missed it (too few multi-step contexts with ranges); caught after biasing the context generator to multi-step contexts and short lexemes (4 roles)')
seed('S-c18', 'C18', 'char_range_gen: surrogate handling through a flag `skipped_surrogates` that is only cleared on the non-matching path',
     'predicate true at U+E000 whose range ends before char::MAX: the range end is written as U+D7FF', ['C18'], [],
     'needed the harness to havoc loop-carried variables it does not know (the flag); demo is a #[cfg(test)] module hooked into main.rs (demo_hook.diff), confirmed by the agent and by the native replay of the check',
     confirm='agent-provided demo (crates/char_range_gen/src/seed_demo.rs hooked in by demo_hook.diff): 5 of 12 tests fail with the change, 12 pass without; the check replays its own counterexample against the natively compiled generator')
seed('S-c02', 'C02', 'range_map.rs remove_ranges case (1): the removed range is advanced in both sub-branches',
     'r1 # r2 where a range of r2 covers one range of r1 completely and reaches into the next one, e.g. [a-c e-g] # [a-f]', ['C11', 'C02'], [],
     'this is the other half of the pinned C11 defect; C11 reports 2 roles. The quick C02 lexer family had no such operand at the first run; with the class-difference chains added later C02 reports it too (regression run over all seeds)')
seed('S-c07', 'C07', 'reset_match() moved from the generated Err arm of backtrack() into Lexer::backtrack before the error is built',
     'InvalidToken reported through backtrack() with no saved match after at least one consumed character: location is the end of the consumed text', ['C07'], [], '')
seed('S-c01b', 'C01', 'codegen.rs generate_state: the chain of right-context tests that saves the match is built in reverse priority order',
     'two right-context rules on the same lexeme whose contexts both hold, plus a longer rule keeping the state non-terminal', ['C04', 'C01'], [],
     'C01 first missed it (its family had no right contexts); a right-context priority family was added to C01 and C04 afterwards; both report it in the regression run over all seeds')
seed('S-c06b', 'C06', 'codegen.rs: the Err arm of `match self.0.backtrack()` no longer calls reset_match()',
     'an InvalidToken through backtrack() followed by another token: its start (and match_loc/match_ in its action) still points at the failed attempt', ['C06', 'C07'], [],
     'post-state check (match start after the call) plus follow-up call')
seed('S-c09', 'C09', 'codegen.rs: reset_accepting_state() before a directly-run action removed (third independent occurrence of this mechanism)',
     '"=="-like token leaves a stale saved match that survives single-character tokens; a later "." not followed by a digit rewinds far back: more than n+1 items', ['C09'], [],
     'reported as "a saved match survives the call" with a native replay that shows the extra items')
seed('S-c15', 'C15', 'lexgen_util: derive(Clone) replaced by a manual Clone built on a shared from_parts() constructor that never copies __done',
     'clone after a `$` rule fired or after the final None: the clone handles end-of-input again', ['C15'], [],
     'first run was inconclusive (the harness looked for the Lexer struct literal only in new_from_iter_with_state); field discovery now scans the whole dump')
seed('S-c13', 'C13', 'generated binary_search gets a fast path `c < table[0].0 || c >= table[last].1 => false` (upper bound excluded)',
     'a class with more than 9 ranges in a non-terminal position ($$whitespace+) and the input is the last character of the table (U+3000)', ['C13'], [],
     'needed part (b) of C13 (lexers `$$name+` through engine M with the real binary_search) and PtrMetadata/indexing support in the executor')
seed('S-c14', 'C14', 'lexgen_util: private field ascii_input (true for &str constructors on ASCII input) enables a width fast path placed before the tab branch',
     'all-ASCII input with a tab, lexer built with new / new_with_state: columns after the tab differ from the iterator constructors', ['C14'], [],
     'constructor states differ in the new field (symbolic is_ascii); natively confirmed by running all four constructors on short inputs')
seed('S-c10b', 'C10', 'codegen.rs: reset_match() after Return(res) moved into the Ok arm, so an Err from a fallible action does not reset the match',
     'a =? rule returns Err and the next match follows immediately: its match_loc()/token span starts at the failed text', ['C10'], ['C06'],
     'caught after adding fallible logging definitions to the C10 family (post-state + follow-up call)')
seed('S-c04b', 'C04', 'codegen.rs generate_state: right-context chain for the saved match folded in forward order (same mechanism as S-c01b, found independently)',
     'two right-context rules accept in one non-terminal state and both contexts hold: the last one wins', ['C04', 'C01'], [], 'caught by the right-context priority family in both checks')
seed('S-c11b', 'C11', 'regex_to_nfa.rs regex_to_range_map: bracket sets are sorted and coalesced with `last.end = end` instead of max(last.end, end)',
     'a bracket set used as an operand of `#` in which a character or range is nested strictly inside another range, e.g. [a-z e] # q rejects f..p', ['C11'], [],
     'caught by part (b) of C11 (class expressions through one-character lexers), added after the first round')
seed('S-c05b', 'C05', 'codegen.rs generate_state: `__done = true` is only emitted for states with a `$` transition or the Init entry state',
     'Init has a `$` rule and the input ends inside an unfinished lexeme (or in another rule set without `$`): the `$` rule fires after the InvalidToken', ['C05'], [],
     'done flag compared after every call; the `$`-variants of the join family provide the definitions')
seed('S-c02b', 'C02', 'nfa_to_dfa.rs: merging of range targets into char transitions by binary search with `char < range.end` (end excluded)',
     'a state with a char transition on c and a range of width >= 2 that ends exactly at c, with diverging continuations ([a-c] x | c y rejects "cx")', ['C02', 'C01'], [],
     'C02 catches it on a bounded-exhaustive tree, C01 on rewind-biased rule sets (5 roles)')
seed('S-c09b', 'C09', 'codegen.rs: `__done = true` skipped when the end-of-input transition leads to another state',
     'a definition with `$` under a repetition, e.g. [a-z]+ (\'\\n\' | $)+, and input ending inside that repetition: next() loops forever', [], ['C09'],
     'NOT DETECTED and outside the claim: the definition is not well-formed in the sense of the properties (`$` only at the tail of a rule): after `$` another iteration may follow. The families never generate `$` before other symbols; on the unmodified tree such definitions already drop the last token')
seed('S-c03b', 'C03', 'codegen.rs generate_state_arms keeps a match arm for single-predecessor states targeted by an end-of-input transition while renumber_state still counts them as inlined',
     'a rule in which `$` is followed by something nullable, e.g. \';\' (\'\\n\' | $) \' \'?, placed right before the next rule set: switch() lands in the wrong state', [], ['C03'],
     'NOT DETECTED and outside the claim for the same reason as S-c09b (`$` not at the tail of the rule); with well-formed definitions the end-of-input target is always a terminal state and the changed code path is never generated')
seed('S-c07b', 'C07', 'codegen.rs: reset_accepting_state() moved into the Return branch (fourth independent occurrence of the stale-saved-match mechanism)',
     'a continuing rule whose proper prefix is another rule, then a lexeme through a right-context rule whose context fails: a token remembered from the earlier lexeme is returned instead of InvalidToken', ['C07'], [], '')
seed('S-c08b', 'C08', 'reset of the match on the error path moved into Lexer::backtrack as `current_match_end = current_match_start` (end moved back instead of start moved forward)',
     'failure through backtrack() with no saved match, then more input: all later locations lag by the length of the failed text', ['C08'], [], 'post-state: match start/end after the call')
seed('S-c06c', 'C06', 'Lexer::next: characters below U+1100 are counted as one column without looking up their width',
     'a zero-width character below U+1100 (combining marks) followed by a location on the same line', ['C06'], [],
     'the display width is an uninterpreted function in the solver; counterexamples are refined with the real unicode-width answers of their characters so that they replay natively. The first run also exposed a runaway worker (thousands of location mismatches): the number of counterexamples per definition is now capped and the time budget is enforced in the comparison loop')
seed('S-c09c', 'C09', 'Lexer::next: byte index advanced by `if char <= U+0080 { 1 } else { len_utf8 }` (U+0080 takes two bytes)',
     'input containing exactly U+0080 and an action that calls match_(): str indexing panics inside next()', ['C09', 'C06'], [],
     'C06 catches the wrong byte index at once; C09 caught the panic after the &str location definitions got a word-like rule whose action reads match_()')
seed('S-c03c', 'C03', 'simplify.rs: rule-set entry indices are shifted by the number of transition-less states before them, which also counts the (kept) entry state of an empty rule set',
     'an empty rule set declared before another rule set and a switch to the later one', ['C03'], [],
     'first run missed it: the family had no empty rule sets and a wrong entry shows only as behaviour of another rule set. Added empty rule sets (random + systematic family) and the attribution "token of a rule set that is not active => ruleset aspect"; the reference was corrected to let the entry state of an empty rule set read one character')
seed('S-c10c', 'C10', 'codegen.rs: `re,` rules are run inline on the accepting-transition path without restoring __state = __initial_state',
     'a `re,` rule whose match runs through a loop state and ends in a terminal accepting state, e.g. # [0-9]+ ; ,', ['C10'], [],
     'caught after adding the sugar family (sugar forms on looping regexes, in Init and in another rule set)')
# ---- round 5 (tried on a private worktree with tools/try_seed_wt.sh while a long run was using /repo) ----
WT = 'tools/try_seed_wt.sh seeded/%s/patch.diff %s (private worktree of /repo HEAD with VERIF_REPO/VERIF_WORK set; git apply; ./check <id> quick; git checkout -- .)'
_seed0 = seed
def seed(id, prop, change, needs, detected_by, missed_by=(), note=''):
    _seed0(id, prop, change, needs, detected_by, missed_by, note)
    SEEDS[id]['ran'] = WT % (id, ' '.join(list(detected_by) + list(missed_by)))
seed('S-c11c', 'C11', 'range_map.rs RangeMap::insert: "append" fast path that compares the new start with last.start instead of last.end',
     'an insert whose start lies strictly inside the last piece of the map (bracket set with overlapping ranges in increasing order, e.g. [a-m h-z])', ['C11'], [],
     'inductive step for insert: the solver returns a two-piece pre-state and a range starting inside the last piece; replayed natively')
seed('S-c08c', 'C08', 'codegen.rs generate_state: the inline failure branch omits `__initial_state = 0` for states it takes to be in Init (off-by-one on the first state of the next rule set)',
     'a failure in the entry state of the rule set that directly follows Init, then a lexeme from Init whose action continues or returns: the lexer falls back to the old rule set', ['C08'], [],
     'post-state compare of __initial_state after the failing call')
seed('S-c01c', 'C01', 'dfa/backtrack.rs update_backtracks: a re-visited state is upgraded but its successors are not walked again',
     'a join or cycle entered first without and later with an earlier accepting state, and the scan dies behind it: InvalidToken instead of the rewind to the shorter match', ['C01'], [],
     'rewind-biased family (joins behind optional prefixes)')
seed('S-c05c', 'C05', 'dfa.rs State::has_no_transitions ignores the end-of-input transition, so simplify() removes `$`-only states',
     'rules R and R $ together (preference lost) or only R $ (matches although input remains)', ['C05'], [],
     'the `$`-variants of the end-of-input family')
seed('S-c02c', 'C02', 'regex_to_nfa.rs ZeroOrMore: the incoming state is reused as loop head',
     'a `*` group whose body begins with another `*`: (x* y)* is compiled as (x* y)* x*', ['C02'], [],
     'first run missed it (no nested repetition whose body starts with a repetition in the bounded-exhaustive tree). Added the nested repetition family and the attribution of C02-tagged definitions to C02')
seed('S-c04c', 'C04', 'right_ctx.rs: right-context automata cached by the unresolved context AST (ast.rs derives Eq/Hash)',
     'two rule sets that bind the same `let` name to different regexes and use it as a right context', ['C04'], [],
     'first run missed it (no rule-set-local lets). Definitions can now carry `let` bindings inside rule sets (local_let_family)')
seed('S-c18b', 'C18', 'char_range_gen: scan loop `0..max` instead of `0..=max`',
     'a predicate that changes its value between U+10FFFE and U+10FFFF', ['C18'], [],
     'first run was inconclusive (the loop-head cut only understood RangeInclusive loops); Range loops are now cut the same way; the exit condition yields the counterexample predicate, replayed natively')
seed('S-c14b', 'C14', 'lexgen_util Lexer::new_with_state skips a leading U+FEFF (iterator constructors do not)',
     'input whose first character is U+FEFF', ['C14'], [],
     'first run was inconclusive: the constructor now branches (multi-path constructor states) and uses str::starts_with / Option combinators / str slicing; summaries added, every pair of constructor paths is compared')
seed('S-c15b', 'C15', 'generated binary_search consults a thread_local "last matching range" cache shared by all tables and lexer instances',
     'a lexer with two different binary-search tables (or two lexers) and calls interleaved between a clone and its original', ['C15'], [],
     'structural equality of the clone cannot see state outside the value: added a model of thread_local Cell and the behavioural comparison same_stream (original and clone driven alternately from the same symbolic tail, the clone replaying the decisions of the original), and two-table definitions in the C15 family')
seed('S-c13b', 'C13', 'search_table.rs: tables identified by (len, first range, last range)',
     'one lexer with two different >9-range tables that agree in length, first and last range (a class in a loop whose initial state is trimmed by another rule)', ['C13'], [],
     'first run missed it twice: no such pair of tables in the family (added bi_tt0..11), then the lexer part of C13 only ran one character per call, so the loop state was never compared (bound raised to 2 characters, 1 kept for the five biggest tables)')
# ---- round 6
seed('S-c03d', 'C03', 'codegen.rs: reset_accepting_state() before accepting transitions is only emitted when the state is marked `backtrack` (the first accepting state of a path is not), so a saved shorter match survives a completed match and later switches',
     'rules p and p c where p c switches (switch / switch_and_return) to a rule set with a state that rewinds although nothing was accepted on the way there (join of an accepting and a non-accepting path): the action of the Init rule p runs while the other rule set is active', ['C03', 'C09'], [],
     'C09 reports the surviving saved match at once. C03 first missed it: its stale-match definitions rarely had a switching longer rule, and a wrong item was attributed to the rule-set aspect only for tokens of rule sets other than the start rule set. Added: stale family with forced switch / switch_and_return and a join; isolation check along the implementation\'s own action log (every action must belong to the rule set active when it ran)')
seed('S-c06d', 'C06', 'lexgen_util backtrack(): the restore of match end / iterator / location is skipped when line and column of the failed attempt equal the accepting position (byte index not compared)',
     'a rewind over zero-width characters only (U+200B, U+0301, U+FEFF ...)', ['C06'], [], 'location characters include zero-width classes; 8 roles')
seed('S-c07c', 'C07', 'dfa/backtrack.rs update_backtracks: successors over range transitions get the state\'s own flag instead of successor_backtrack',
     'a complete shorter rule and a longer rule that leaves the accepting state by a character class into a non-accepting state, then a mismatch: InvalidToken instead of the shorter match', ['C07'], [],
     'first run missed it (the C07 family had no rewind shapes although the property forbids reporting a lexeme with a valid shorter match as an error). Added the step-out family (step by character / range / several ranges / `_`, out of a one-character or looping accepting state) and rewind-biased definitions to C07, step-out also to C01')
seed('S-c09d', 'C09', 'generated binary_search rewritten with partition_point and an unchecked table[idx]',
     'a state with a search table (>9 ranges to one target) and a character above the last range: index out of bounds', ['C09'], [],
     'first run inconclusive (no summary for slice::partition_point); summary added (same probe sequence as binary_search_by, real predicate closure); the bounds check of table[idx] is the compiler-inserted assert in MIR')
seed('S-c10d', 'C10', 'lexgen_util Lexer::peek reads the lookahead from the input slice at current_match_end.byte_idx',
     'a lexer constructed from an iterator (input is "") and an action that calls peek()', ['C10'], [],
     'first run inconclusive (str::get(RangeFrom), Option::and_then, chars of a string constant had no summaries, string constants kept their quotes); added')
seed('S-c13c', 'C13', 'range_map.rs insert_ranges: when both ranges start at the same point and the old one is longer, its rest is pushed at once and both iterators advance (unsorted overlapping map; remove_ranges then misses ranges)',
     'a union of classes on the left of `#` where one range of the left operand of `|` overlaps two or more ranges of the right one, and `#` removes a character of a later overlapped range', ['C13', 'C11'], [],
     'C11 (inductive step on insert_ranges) reports the malformed map at once. The C13 lexer family had no union under a difference; added bi_union0..4')
seed('S-c14c', 'C14', 'lexgen_util backtrack(): __done = true when the failed match ended at input.len()',
     'an InvalidToken raised through backtrack() on the last character of the input, an Init `$` rule, and a lexer constructed from &str (input is "" for iterator lexers)', ['C14'], [],
     'first run missed it: the constructor states are equal in every field except `input`, and the argument "next() is one body for all constructors" overlooked that this one field is read by the runtime. C14 now also explores one call from every boundary state for each definition constructed from &str and from an iterator; a disagreement with the reference that only one of the two shows is reported (replayed natively through all four constructors)')
seed('S-c15c', 'C15', 'lexgen_util: process-wide direct-mapped display-width cache in a static array of atomics, slot = c % 64, tag = c >> 8',
     'two characters of one 256-block that are 64/128/192 apart and have different widths, an eviction between them, and a schedule in which one lexer runs ahead of its clone', [], ['C15'],
     'NOT DECIDED: the check ends INCONCLUSIVE (exit 2, no verdict; it does not pass). The executor was extended for it (static arrays of atomics as z3 arrays with symbolic indices, Atomic load/store/swap, shifts, masks, disjoint ors, division and remainder by constants on integer-encoded values, one-line and inline constants) and now runs the changed code, but z3 does not decide the resulting queries (array + div/mod + uninterpreted width) within the per-query limit. Because next() touches mutable state outside the lexer value, an undecided definition makes C15 inconclusive instead of being listed as over budget. Multi-character lexeme definitions (cl_any3, cl_word) were added to the C15 family for this kind of change')
# ---- round 7
seed('S-c01d', 'C01', 'nfa_to_dfa.rs: for a literal character covered by a range the targets of `_` are dropped (match on the first covering range, `_` only when no range covers it)',
     'one state in which the same character has its own transition, is covered by a range of another rule and can be consumed by `_` of a third rule, followed by input only the `_` rule continues', ['C01'], [], 'random rewind-biased and single-rule-set definitions (2 roles)')
seed('S-c02d', 'C02', 'regex_to_nfa.rs regex_to_range_map: bracket sets sorted and merged with `last.end = end` (same mistake as S-c11b, found independently)',
     'a bracket set under `#` with an element nested inside an earlier range', ['C02', 'C11'], [], '')
seed('S-c04d', 'C04', 'dfa.rs is_accepting_state: a state counts as accepting only if one of its accepts has no right context (so successors of context-only accepting states are not marked backtrack)',
     're > ctx matched with the context satisfied, then a longer candidate of another rule fails in a non-accepting state: InvalidToken instead of the token', ['C04'], [], '3 roles')
seed('S-c05d', 'C05', 'codegen.rs generate_state: at end of input in an accepting, non-backtrack, non-entry state the action is run directly instead of through backtrack() (which clears __done)',
     'input ending right after a token that is a proper prefix of another token, with a `$` rule or a non-Init rule set', ['C05'], [], 'done flag compared after every call; 4 roles')
seed('S-c08d', 'C08', 'codegen.rs generate_rhs_code: reset_accepting_state() before a direct-accept action removed (fifth occurrence of the stale-saved-match mechanism, this time asked for C08)',
     'a lexeme whose longer rule is finished by a direct accept and then fails inline, followed by a failure through backtrack() with no fresh saved match', ['C08', 'C09'], [],
     'C09 reports the surviving saved match; C08 first attributed it to C09 only. A saved match that survives a call returning an error is now also a `recover` disagreement (C08: "with an empty current match ... the tokens that follow are those of the reference")')
seed('S-c11d', 'C11', 'ast.rs parse_regex_3: `#` parsed right-associatively (a # b # c = a # (b # c))',
     'two or more `#` in a row without parentheses', ['C11', 'C02'], [],
     'first run missed it: the printer of generated definitions parenthesised nested differences, so the parser\'s associativity was never exercised. Chains are now printed without parentheses on the left (documented left associativity is what the reference implements)')
seed('S-c18c', 'C18', 'char_range_gen: the scan is split into two loops over the blocks below and above the surrogates, an open range is closed at the end of each block',
     'a predicate true on both U+D7FF and U+E000: two adjacent ranges instead of one (not maximal)', ['C18'], [],
     'first run inconclusive: the cut-point harness knew one loop. It now handles every context in which the scan loop is entered with a fresh iterator (found by running on from the exit of the previous one; the outer array loop is unrolled), takes the iterator local from the loop head, and havocs exactly the user variables some path of one iteration changes. A correct version of the same restructuring verifies (exit 0)')
# ---- round 8
seed('S-c03e', 'C03', 'a shared Lexer::error(kind) helper that resets __state/__initial_state to 0 is also used for the Err of a fallible action',
     'a `=?` rule that returns Err while a rule set other than Init is active (or after it switched), and more input after the error: the lexer falls back to Init', ['C03'], [],
     'first run missed it: the C03 family had no fallible rules. Added multi-rule-set definitions with fallible kinds (a user error is not a failure of the lexer)')
seed('S-c05e', 'C05', 'rule-set switching moved into a runtime helper that also clears __done and the saved match',
     'a `$` rule whose action switches: end of input is acted on again in the new rule set (or loops forever when two `$` rules switch to each other)', ['C05'], [],
     'first run crashed: the natively compiled lexer of a generated definition did not return and the driver timeout was not handled. A native hang is now found line by line, reported as a progress/end-of-input violation with the driver line as replay; the symbolic part reports the done flag and the extra items')
seed('S-c06e', 'C06', 'codegen.rs generate_semantic_action_call: reset_match() after Return moved into the Ok arm (same mistake as S-c10b, asked for C06)',
     'a fallible rule that returns Err directly followed by the next lexeme: the next token starts at the failed lexeme', ['C06'], [],
     'first run missed it (no fallible rules in the location family); added')
seed('S-c07d', 'C07', 'dfa.rs State::has_no_transitions ignores the end-of-input transition (same change as S-c05c, asked for C07)',
     'a rule ending in `$` whose state before `$` has no other transitions: InvalidToken instead of the match / the Custom error', ['C07'], [], '')
seed('S-c09e', 'C09', 'dfa.rs is_accepting_state narrowed to accepts without right context (same change as S-c04d, asked for C09)',
     'a match saved under a right context, a longer candidate that fails in a state that is then not marked backtrack: the saved match survives the error and is replayed later (more items than characters, out of order)', ['C09'], [],
     'first run missed it: the surviving saved match was only examined when the returned item agreed with the reference. It is now also recorded when the item differs; added the context-continuation family (C04, C09)')
seed('S-c10e', 'C10', 'lexgen_util backtrack(): `__done = false` hoisted above the match (same change as S-c05, asked for C10)',
     'a failure through backtrack() with nothing saved on the last character and a `$` rule in Init: its action runs after the error although the stream had ended', ['C10'], [],
     'first run missed it (no logging `$` rule next to the failing shape in the C10 family); added')
seed('S-c13d', 'C13', 'codegen.rs inclusive_range_contains: ranges ending in ASCII are tested on `x as u8`',
     'a class with an ASCII range emitted as a guard (<= 9 ranges, single-character rule, right context) and a character >= U+0100 whose low byte lies in the range', ['C13'], [], 'MIR cast char -> u8 is a truncation in the executor; 3 roles')
seed('S-c14d', 'C14', 'lexgen_util Lexer::peek decodes the lookahead as char::from(first byte of input at the match end) when input is not empty',
     'a &str lexer, an action that uses peek(), and a non-ASCII character right after the match', ['C14'], [],
     'first run inconclusive (str::as_bytes, <[u8]>::get, char::from(u8) on the symbolic string had no model); added: the first byte of the character at a boundary offset as a function of the character. Offsets into the whole input are the lexer\'s absolute byte indices (the symbolic start location included), offsets into a suffix view are relative')
# ---- round 9
seed('S-c01e', 'C01', 'regex_to_nfa.rs: OneOrMore loops back to the incoming state and Or starts both alternatives at the incoming state (each harmless alone)',
     'a `+` that is a direct operand of `|`: x+ | y is compiled as x+ | x* y', ['C01'], [], 'random single-rule-set definitions; 3 roles')
seed('S-c02e', 'C02', 'regex_to_nfa.rs String arm: "last character" decided by byte offset + 1 == byte length',
     'a string literal whose last character is multi-byte: it matches nothing', ['C02'], [],
     'first run missed it (all string literals of the family were ASCII); added string literals with multi-byte characters in first / middle / last position next to their concatenations')
seed('S-c04e', 'C04', 'codegen.rs: one cloned lookahead iterator is shared by the chain of right-context tests of a state (passed as &mut)',
     'two right-context rules on the same lexeme, the first context failing after consuming at least one character', ['C04'], [], 'right-context priority family and random context definitions; 7 roles')
seed('S-c06f', 'C06', 'lexgen_util new_with_state strips a leading U+FEFF from the input (stored input and iterator built from the stripped string)',
     'a &str lexer whose input starts with U+FEFF: every byte index is 3 too small and the character never reaches the rules', ['C06'], [],
     'first run inconclusive (str::strip_prefix, and the step harness expected a constructor with one path). The harness now takes the constructor path that leaves the input untouched and reports the paths on which the constructor consumed or skipped characters (aspects dropped / loc / ctor), replayed natively')
seed('S-c08e', 'C08', 'codegen.rs generate_state: states without character transitions test end of input with peek() instead of next()',
     'a failure in a state with no character transitions (after text that only `$` can follow, or in an empty rule set) with a character following: it is not consumed and lexed again in Init', ['C08'], [], 'input position after the failing call; 3 roles')
seed('S-c11e', 'C11', 'range_map.rs insert_ranges: in the arm where both ranges start together and the inserted one is shorter, the rest of the old range is pushed at once (same idea as S-c13c in the mirrored arm)',
     'a union under `#` where a piece of the left operand overlaps two pieces of the right one', ['C11'], [], 'inductive step on insert_ranges')
seed('S-c15d', 'C15', 'lexgen_util: a private field exhausted: Rc<Cell<bool>> set when the iterator returns None, consulted by peek(); derive(Clone) shares it between clones',
     'a clone exists, one lexer reaches the end of the input before the other runs an action that decides on peek()', ['C15'], [],
     'first run inconclusive (no model of Rc). Added: Rc::{new,clone,deref} with the pointee in the state (clones share it), comparison of the action logs (rule, match_loc, peek) of clone and original - not only of the items -, a run-ahead schedule (the original runs to the end of its stream, then the clone makes its first call) used when clone()/next() touch state outside the lexer value, and a native driver mode for it')
seed('S-c18d', 'C18', 'char_range_gen: a surrogate inherits the answer of the previous code point, the 0xE000 special case for the range end is dropped',
     'a predicate true at U+D7FF and false at U+E000: the range ends at U+DFFF (not a scalar value)', ['C18'], [], 'first run inconclusive (Result::map_or with the predicate as function pointer); summary added')
# ---- round 10
seed('S-c03f', 'C03', 'dfa.rs DFA::add_dfa: the target of the `_` transition is shifted by the growing self.states.len() instead of the captured offset',
     'a rule set other than Init with `_` after another symbol, the target also reached by a character or range (else the macro panics), and a rule set declared behind it: the lexer lands in a state of the next rule set', ['C03'], [],
     'first run missed it silently: the definitions it affects made the proc macro panic and were dropped from the family ("not expanded, no verdict"). Now a generated definition that the macro does not turn into a lexer makes the check inconclusive (on the repaired tree every generated definition expands). Added: the any-in-the-middle family and variants of the multi-rule-set definitions with a trailing rule set that nothing switches to, so that wrongly renumbered transitions stay inside the automaton and misbehave at run time')
seed('S-c04f', 'C04', 'right contexts that "can match the empty string" are dropped at compile time; matches_empty treats a concatenation like an alternation',
     'a right context that is a concatenation of a nullable and a non-nullable part', ['C04'], [], '9 roles')
seed('S-c05f', 'C05', 'dfa.rs DFA::add_dfa: the end-of-input edge is shifted by the growing self.states.len()',
     'a rule ending in `$` that is reachable after at least one consumed character, in a rule set other than Init, with a rule set declared behind it', ['C05'], [],
     'first run missed it for the same reason as S-c03f (macro panic, definition dropped); caught by a padded variant')
seed('S-c07e', 'C07', 'codegen.rs generate_state: when no right context of an accepting state holds, reset_accepting_state() is emitted (drops the shorter match saved earlier in the lexeme)',
     'a shorter rule matched a prefix, a right-context rule matches further but its context fails, no longer rule matches: InvalidToken instead of the shorter match', ['C07'], [], '4 roles')
seed('S-c09f', 'C09', 'codegen.rs fail closure: for accepting states the error arm of backtrack() is replaced by unreachable!()',
     'a state all of whose accepts have right contexts, reached with the context failing and nothing saved: next() panics', ['C09'], [],
     'first run inconclusive: explicit panics (panic!/unreachable! through fmt::Arguments and core::panicking) had no model, only compiler-inserted assertions had; added')
seed('S-c10f', 'C10', 'lexgen_util backtrack(): the saved match is read by reference instead of take()n, so it stays armed',
     'a token produced by backtracking, then a scan that fails through backtrack() without a match of its own: the old action runs again (and again)', ['C10'], [], '')
seed('S-c13e', 'C13', 'char_range_gen defines ascii_x as is_ascii() && is_x() for six classes and char_ranges.rs is regenerated: ASCII_WHITESPACE gains U+000B',
     'the class $$ascii_whitespace and the character U+000B', ['C13'], [], 'Kani table harness (part a) and the lexer part both report it')
seed('S-c14e', 'C14', 'lexgen_util new_from_iter_with_state sets __done from whether the iterator is empty',
     'an iterator lexer over the empty input and an Init `$` rule', ['C14'], [],
     'first run inconclusive (the reference constructor had two paths); the comparison now takes a constructor that does not branch on its input as the reference')
# ---- round 11
seed('S-c01f', 'C01', 'codegen.rs generate_state_char_arms: the arms for literal characters that lead to another state are emitted after the range arms',
     'a state with a range leading directly to an accept and a literal character inside that range that continues a longer rule', ['C01'], [], '5 roles')
seed('S-c02f', 'C02', 'ast.rs parse_regex_2 collapses directly nested repetition operators; (r?)+ is rewritten to r+',
     '`+` applied directly to a `?` regex and an input that needs zero occurrences', ['C02'], [], 'nested repetition family')
seed('S-c06g', 'C06', 'the iterator cloned for the right-context test is advanced by the test and then stored as the saved match (location saved is the lexeme end)',
     'a right context that consumes characters, on an accepting state with outgoing transitions, and a rewind to that match with more input following', ['C06'], [],
     'first run inconclusive (`impl Iterator for &mut I` forwarding had no model); added')
seed('S-c08f', 'C08', 'lexgen_util backtrack(): in the no-saved-match arm `__done |= self.__iter.peek().is_none()`',
     'an InvalidToken through backtrack() on the last character of the input with an Init `$` rule still to come', ['C08'], [],
     'first run missed it: no end-of-input rules next to the failing shape in the C08 family, and a wrong done flag after an error was attributed to C05 only. Added; a wrong done flag after an error is also a `recover` disagreement')
seed('S-c09g', 'C09', 'codegen.rs fail closure: after a successful backtrack() whose action continues, the generated code does `return self.next()` instead of looping',
     'thousands of consecutive lexemes that are skipped through backtracking: stack overflow', ['C09'], [],
     'first run missed it (tokens are identical; the crash needs inputs far beyond the per-call bound). Added: the executor records the recursion depth of next(); a call in which next() calls itself is reported as a progress disagreement and confirmed natively by long runs (400000 characters) built from the lexemes the witness skips')
seed('S-c11f', 'C11', 'range_map.rs remove_ranges: the arm where the overlap ends at the right end of the old range also advances the removed-range iterator',
     'a removed range that starts inside one piece and ends inside a later piece', ['C11'], [], 'inductive step on remove_ranges and the class-expression lexers')
seed('S-c15e', 'C15', 'lexgen_util: Peekable replaced by a hand-written Lookahead whose manual Clone drops the parked character',
     'a clone taken right after an action that called peek()', ['C15'], [],
     'first run inconclusive (Option::get_or_insert_with); summary added; the structural comparison of clone and original reports the lost character, replayed natively')
seed('S-c18e', 'C18', 'char_range_gen: the scan runs to char::MAX + 1 as a sentinel and the flush after the loop is removed (the sentinel is skipped by the surrogate arm)',
     'a predicate true at U+10FFFF: its last range is dropped', ['C18'], [], 'exit obligation of the cut-point harness')
# ---- round 12
seed('S-c03g', 'C03', 'dfa/backtrack.rs update_backtracks: rule-set entry states are not counted as sources of saved matches',
     'a rule that matches the empty string (its rule-set entry state is accepting), and a longer alternative that fails one step later', [], ['C03'],
     'NOT DETECTED and outside the claim: needs a rule that matches the empty string, which the precondition of the properties excludes ("no rule matches the empty string"); the families never generate such rules')
seed('S-c04g', 'C04', 'lib.rs compile_single_rule: a rule whose right context is exactly `$` is rewritten to `re $` (end of input consumed, longer match)',
     're > $ after a context-free rule for the same lexeme at the end of the input, or an action that switches to a rule set with a `$` rule', ['C04'], [], '')
seed('S-c05g', 'C05', 'nfa_to_dfa.rs: `$` edges to the accepting state of a rule listed after a rule the DFA state already accepts for are pruned',
     're listed before re $: the `$` rule never fires', ['C05'], [], '6 roles')
seed('S-c06h', 'C06', 'lexgen_util backtrack(): last_match.clone() instead of take() (same idea as S-c10f, asked for C06)',
     'a token that ended by rewinding, then a state whose only accept has a failing right context and that fails: the old token is returned again', ['C06'], [], '')
seed('S-c07f', 'C07', 'lexgen_util backtrack(): the no-saved-match arm no longer resets __state (same change as S-c08, asked for C07)',
     'a failure through backtrack() with nothing saved after passing a non-inlined state, and further calls', ['C07'], [], '18 roles')
seed('S-c10g', 'C10', 'lexgen_util backtrack(): the iterator is restored only if match_end.byte_idx < input.len() (input is "" for iterator lexers)',
     'an iterator lexer that rewinds over already consumed characters', ['C10'], [], 'the run-time families use iterator lexers; 23 roles')
seed('S-c13f', 'C13', 'range_map.rs remove_ranges `<` -> `<=` (same change as S-c11, asked for C13)',
     '$$class # X where a removed range ends exactly on the first character of a class range', ['C13'], [], 'bi_combo / class-difference lexers of the C13 family')
seed('S-c14f', 'C14', 'lexgen_util: the iterator saved with an accepting state is dropped when current_match_end.byte_idx == input.len() (always true at offset 0 for iterator lexers)',
     'an iterator lexer and a rewind to a match recorded at byte offset 0', ['C14'], [], 'behavioural comparison of &str and iterator lexers')
