# one entry per seeded change; read by tools/mkmeta.py
seed('S-c11', 'C11', 'range_map.rs remove_ranges: `removed.end < old.start` became `<=` (a removed range ending exactly on the first code point of a piece is skipped)',
     'a difference a # b where a piece of b ends on the first code point of a piece of a, e.g. [0-9] # 0', ['C11'], ['C02'],
     'C11 reports 3 roles (post-condition fails at the boundary code point); the C02 lexer family has no such boundary and stays quiet')
seed('S-c10', 'C10', 'codegen.rs: reset_accepting_state() no longer runs before a directly-run action, only in the Return arm',
     'rule P prefix of rule Q ending in a dead-end accept, Q continues/skips/switches, next scan fails in a rewind state entered without an accept (join of "x" and ("x"|"w")"yz")',
     ['C10', 'C09', 'C01'], [], 'first C10 run missed it (family lacked the shape); caught after adding the stale-match family and attributing wrong items to the actions aspect')
seed('S-c03', 'C03', 'lexgen_util backtrack(): the no-saved-match arm no longer resets __initial_state',
     'failure in a non-Init rule set through backtrack() with no saved match (failed right context or join state), then two more matches', ['C03', 'C08'], [],
     'post-state check: __initial_state is not the Init entry after the error')
seed('S-c06', 'C06', 'codegen.rs: reset_accepting_state() before a directly-run action removed',
     'token via accepting state + direct accept leaves a stale saved match; a later call fails in a rewind state reached without an accept and re-emits the old prefix with its old span',
     ['C06', 'C09', 'C01'], [], 'first C06 run missed it; caught after following post-state disagreements one call further and attributing out-of-order token starts to the loc aspect')
seed('S-c05', 'C05', 'lexgen_util backtrack(): `__done = false` moved before the match, so it is also cleared when there is no saved match',
     'input ends inside a lexeme in a rewind state with no saved match and Init has a `$` rule: the `$` rule fires after the end-of-input error', ['C05'], ['C07'],
     'first C05 run missed it (no definition failed through backtrack() at end of input); caught after adding `$`-variants of the join family; the done flag is compared after every call')
seed('S-c01', 'C01', 'codegen.rs reset_accepting_state() removed before directly-run actions + Lexer::reset_match also clears last_match (equivalent only when the action resets the match)',
     'Q = P-prefix rule with continue_/switch action (no reset_match), next scan fails in a join state', ['C01', 'C10'], [], '')
seed('S-c08', 'C08', 'lexgen_util backtrack(): the no-saved-match arm no longer resets __state (keeps __initial_state = 0)',
     'InvalidToken through backtrack() with a non-zero stale __state; the next single lexeme is lexed from the stale state', ['C08'], ['C03'], '4 roles reported by C08 (state after the call is not the Init entry)')
