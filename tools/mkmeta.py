#!/usr/bin/env python3
"""writes seeded/<id>/meta.json from the table below (results of tools/confirm_seed.sh + tools/try_seed.sh)"""
import json, os
HERE = os.path.dirname(os.path.dirname(os.path.abspath(__file__)))
CONFIRM = 'tools/confirm_seed.sh seeded/<id> seed_demo.rs : fresh worktree of /repo HEAD; demo passes unmodified; patch applies; cargo test --workspace: 119 passed, 0 failed with the change; demo fails with the change'
SEEDS = {}

def seed(id, prop, change, needs, detected_by, missed_by=(), note='', confirm=CONFIRM):
    SEEDS[id] = dict(id=id, breaks_property=prop, change=change, needs_to_manifest=needs, origin='independent sub-agent given only the property text and a scratch worktree',
                     confirmed=confirm, ran='tools/try_seed.sh seeded/%s/patch.diff %s (git -C /repo apply; ./check <id> quick; git -C /repo checkout -- .)' % (id, ' '.join(list(detected_by) + list(missed_by))),
                     detected_by=list(detected_by), not_detected_by=list(missed_by), note=note)

exec(open(os.path.join(HERE, 'tools', 'seed_table.py')).read())

for id, m in SEEDS.items():
    d = os.path.join(HERE, 'seeded', id)
    if os.path.isdir(d):
        json.dump(m, open(os.path.join(d, 'meta.json'), 'w'), indent=1)
print(len(SEEDS), 'meta files')
