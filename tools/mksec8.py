#!/usr/bin/env python3
"""rewrites section 8 of DESIGN.md (table of seeded changes) from seeded/*/meta.json"""
import glob, json, os, re
HERE = os.path.dirname(os.path.dirname(os.path.abspath(__file__)))
metas = [json.load(open(p)) for p in sorted(glob.glob(os.path.join(HERE, 'seeded', '*', 'meta.json')))]
n = len(metas)
out_pre = [m for m in metas if not m['detected_by'] and 'outside the claim' in m.get('note', '')]
undet = [m for m in metas if not m['detected_by'] and m not in out_pre]
caught_own = [m for m in metas if m['breaks_property'] in m['detected_by']]
caught_other = [m for m in metas if m['detected_by'] and m['breaks_property'] not in m['detected_by']]
intro = ('%d changes from independent sub-agents (twelve rounds; later rounds were told which mechanisms had already been used and, '
         'from round four on, the well-formedness precondition). %d break a property on well-formed definitions: %d are caught by the check '
         'of the property they were written for, %d by the check of a neighbouring property that states the broken behaviour more directly '
         '(remarks column). About half were caught only after the check had been strengthened as noted in the last column - the misses were '
         'gaps in the definition families, in a per-call bound, in the attribution of a disagreement to a property, or std functions the '
         'executor had no summary for (inconclusive, not a pass). %d need definitions outside the precondition of the properties '
         '(`$` not at the tail of a rule, or a rule that matches the empty string) and are not caught. %d (%s) is not decided: the check ends inconclusive (exit 2), see its row.'
         % (n, n - len(out_pre), len(caught_own), len(caught_other), len(out_pre), len(undet), ', '.join(m['id'] for m in undet)))
rows = ['| seed | property | change | caught by | not caught by / remarks |', '|---|---|---|---|---|']
esc = lambda s: s.replace('|', '\\|')
for m in metas:
    rem = ', '.join(m['not_detected_by']) or '-'
    if m.get('note'):
        rem += '. ' + m['note']
    rows.append('| %s | %s | %s | %s | %s |' % (m['id'], m['breaks_property'], esc(m['change']), ', '.join(m['detected_by']) or '-', esc(rem)))
p = os.path.join(HERE, 'DESIGN.md')
s = open(p).read()
i = s.index('## 8. Which checks catch which seeded changes')
s = s[:i] + '## 8. Which checks catch which seeded changes\n\n' + intro + '\n\n' + '\n'.join(rows) + '\n'
open(p, 'w').write(s)
print(n, 'seeds;', len(caught_own), 'own check,', len(caught_other), 'other check,', len(out_pre), 'outside precondition')
