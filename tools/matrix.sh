#!/bin/bash
# usage: matrix.sh <lane> <out dir> <seed id>...
# regression of stored seeded changes: each one is applied to a private worktree (/tmp/wt-lane<lane>) and the quick
# check of the property it breaks (plus the checks recorded as catching it) is run; one result line per (seed, check)
set -u
LANE="$1"; OUT="$2"; shift 2
WT=/tmp/wt-lane$LANE; WORK=/tmp/work-lane$LANE
mkdir -p "$OUT"
[ -d "$WT" ] || { git -C /repo worktree add -q --detach "$WT" HEAD && cp /repo/Cargo.lock "$WT/"; }
cd /verif
for s in "$@"; do
  props=$(python3 -c "
import json;m=json.load(open('seeded/$s/meta.json'));print(' '.join(dict.fromkeys([m['breaks_property']]+m['detected_by'])))")
  git -C "$WT" checkout -q -- .; cp /repo/Cargo.lock "$WT/"
  git -C "$WT" apply "/verif/seeded/$s/patch.diff" || { echo "$s - patch does not apply" >> "$OUT/results.txt"; continue; }
  for p in $props; do
    t0=$(date +%s)
    VERIF_REPO="$WT" VERIF_WORK="$WORK" timeout 3000 ./check "$p" quick > "$OUT/$s.$p.log" 2>&1
    rc=$?
    echo "$s $p exit=$rc violations=$(grep -cE '^VIOLATION' "$OUT/$s.$p.log") wall=$(( $(date +%s) - t0 ))s" >> "$OUT/results.txt"
  done
  git -C "$WT" checkout -q -- .
done
echo "lane $LANE done" >> "$OUT/results.txt"
