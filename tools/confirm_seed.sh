#!/bin/bash
# usage: confirm_seed.sh <seed dir containing patch.diff and a demo test> <demo file name> [crate-relative test dir]
# Confirms in a fresh scratch worktree: demo passes on the unmodified tree, the patch applies,
# the workspace compiles, the 119 existing tests pass with it, the demo fails with it.
set -u
SEED="$1"; DEMO="$2"; TDIR="${3:-crates/lexgen/tests}"
WT=/tmp/confirm-$$
git -C /repo worktree add -q --detach "$WT" HEAD || exit 3
cleanup() { git -C /repo worktree remove --force "$WT" 2>/dev/null; rm -rf "$WT"; }
trap cleanup EXIT
cd "$WT"; cp /repo/Cargo.lock . 2>/dev/null
cp "$SEED/$DEMO" "$TDIR/$DEMO"
T="${DEMO%.rs}"
echo "== demo on unmodified tree"
cargo test --offline -p lexgen --test "$T" 2>&1 | grep -E "^test result|panicked|error" | head -5
git apply "$SEED/patch.diff" || { echo "PATCH DOES NOT APPLY"; exit 4; }
echo "== existing suite with the change (demo moved aside)"
mv "$TDIR/$DEMO" /tmp/demo-$$.rs
cargo test --workspace --no-fail-fast --offline 2>&1 | grep -E "^test result|FAILED|error(\[|:)" | awk '/test result/{p+=$4; f+=$6} !/test result/{print} END{print "passed:", p, "failed:", f}'
mv /tmp/demo-$$.rs "$TDIR/$DEMO"
echo "== demo with the change"
cargo test --offline -p lexgen --test "$T" 2>&1 | grep -E "^test result|panicked|error" | head -5
