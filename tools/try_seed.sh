#!/bin/bash
# usage: try_seed.sh <patch.diff> <property id>...   - applies the change to /repo, runs the quick checks, undoes it
set -u
PATCH="$1"; shift
cd /repo && git status --porcelain | grep -q . && { echo "/repo is not clean"; exit 3; }
git -C /repo apply "$PATCH" || { echo "patch does not apply"; exit 4; }
trap 'git -C /repo checkout -- . ; git -C /repo status --short' EXIT
cd /verif
for p in "$@"; do
  VERIF_VERBOSE= timeout 2400 ./check "$p" quick > /tmp/seedrun_$p.log 2>&1
  echo "== $p exit=$? $(grep -cE '^VIOLATION' /tmp/seedrun_$p.log) violation line(s)"
  grep -E "^VIOLATION|^INCONCLUSIVE|^OK|^KNOWN" -A1 /tmp/seedrun_$p.log | head -8
done
