#!/bin/bash
# usage: try_seed_wt.sh <patch.diff> <property id>...
# like try_seed.sh, but on a private scratch worktree (VERIF_REPO) so that /repo stays untouched while other
# runs use it; the worktree is reset afterwards
set -u
PATCH="$1"; shift
WT=${SEED_WT:-/tmp/wt-mine}
[ -d "$WT" ] || { git -C /repo worktree add -q --detach "$WT" HEAD && cp /repo/Cargo.lock "$WT/"; }
git -C "$WT" checkout -q --detach "$(git -C /repo rev-parse HEAD)" 2>/dev/null
git -C "$WT" checkout -q -- .
cp /repo/Cargo.lock "$WT/" 2>/dev/null
git -C "$WT" apply "$PATCH" || { echo "patch does not apply"; exit 4; }
trap 'git -C "$WT" checkout -q -- .' EXIT
cd /verif
for p in "$@"; do
  VERIF_REPO="$WT" VERIF_WORK=${SEED_WORK:-/tmp/work-mine} timeout 2400 ./check "$p" quick > /tmp/seedrun_wt_${SEED_TAG:-}$p.log 2>&1
  echo "== $p exit=$? $(grep -cE '^VIOLATION' /tmp/seedrun_wt_${SEED_TAG:-}$p.log) violation line(s)"
  grep -E "^VIOLATION|^INCONCLUSIVE|^OK|^KNOWN" -A1 /tmp/seedrun_wt_${SEED_TAG:-}$p.log | head -8
done
