#!/bin/bash
# Offline setup: nothing is fetched.  Creates the scratch area and checks the tools the checks need.
cd "$(dirname "$0")"
mkdir -p .work evidence replays
export CARGO_NET_OFFLINE=true
python3-vt -c "import z3; print('z3', z3.get_version_string())" || exit 1
cargo +nightly --version || exit 1
cargo --version || exit 1
exit 0
