"""Path-based symbolic executor for parsed MIR (see parse.py), z3 back end.

* Control flow is explored path by path (depth first); every branch on a symbolic value is decided
  by z3 (feasibility of path-condition /\ branch-condition).  Values with no symbolic part are
  computed in Python, so fully concrete runs need no solver at all (used to validate the executor
  against natively compiled code).
* Values are immutable trees: scalars `S(width, python-int | z3 term)`, aggregates `A(fields)`,
  enums `E(variant, fields)`, references `Ref(frame id, local, path)`; a write rebuilds the spine.
  References are absolute (frame, local, projection path) - sound because the borrow checker has
  already excluded aliasing of live mutable borrows.
* Integer semantics are bit-precise (wrap-around bit-vectors; the compiler-inserted overflow
  `assert`s are real panic checks).
* Calls to functions that are not in the dumped MIR are handled by *summaries* (summaries.py)
  written from the documented contracts of the std items; an unknown callee, an unparsed statement
  or an `unknown` from the solver raise `Inconclusive` - never a pass and never a violation.
"""
import re
import time

import z3

from . import parse as P


class Inconclusive(Exception):
    def __init__(self, *a):
        Exception.__init__(self, *[(x[:600] + ' ...' if isinstance(x, str) and len(x) > 600 else x) for x in a])


class OverBudget(Inconclusive):
    pass


class SolverUnknown(OverBudget):
    """a single query exceeded the solver's time limit: the case is not decided (never a pass for that case)"""
    pass


# ------------------------------------------------------------------------------------------------
# values

class S:
    """scalar: w = 1 (bool) | 8 | 16 | 32 | 64 | 128 ; v = python int | z3 BitVecRef/BoolRef"""
    __slots__ = ('w', 'v')

    def __init__(self, w, v):
        self.w = w
        self.v = v

    def conc(self):
        return isinstance(self.v, int)

    def __repr__(self):
        return 'S%d(%s)' % (self.w, self.v)


class A:
    __slots__ = ('f',)

    def __init__(self, f):
        self.f = tuple(f)

    def __repr__(self):
        return 'A%r' % (self.f,)


class E:
    __slots__ = ('v', 'f')

    def __init__(self, v, f=()):
        self.v = v
        self.f = tuple(f)

    def __repr__(self):
        return 'E(%s%r)' % (self.v, self.f if self.f else '')


class Ref:
    __slots__ = ('fid', 'local', 'path')

    def __init__(self, fid, local, path=()):
        self.fid = fid
        self.local = local
        self.path = tuple(path)

    def __repr__(self):
        return 'Ref(%s,%s,%s)' % (self.fid, self.local, self.path)


class FnP:
    """function item / pointer.  kind: 'fn' (MIR body), 'ctor' (enum/struct constructor),
    'closure' (MIR body taking an env pointer first), 'ext' (summarised)"""
    __slots__ = ('name', 'kind', 'fn', 'env')

    def __init__(self, name, kind, fn=None, env=None):
        self.name = name
        self.kind = kind
        self.fn = fn
        self.env = env

    def __repr__(self):
        return 'FnP(%s)' % self.name


class Native:
    """opaque value owned by a summary (Vec, iterators, ...): tag + immutable payload tuple"""
    __slots__ = ('tag', 'p')

    def __init__(self, tag, p):
        self.tag = tag
        self.p = tuple(p)

    def __repr__(self):
        return 'N:%s%r' % (self.tag, self.p)


UNIT = A(())
TRUE = S(1, 1)
FALSE = S(1, 0)


def bv(w, x):
    return x if not isinstance(x, int) else z3.BitVecVal(x, w)


def zbool(x):
    if isinstance(x, int):
        return z3.BoolVal(bool(x))
    return x


def mask(w):
    return (1 << w) - 1


DISCR = {'None': 0, 'Some': 1, 'Ok': 0, 'Err': 1, 'Continue': 0, 'Return': 1, 'InvalidToken': 0,
         'Custom': 1, 'Less': -1, 'Equal': 0, 'Greater': 1}


# ------------------------------------------------------------------------------------------------
# state

class Frame:
    __slots__ = ('fid', 'fn', 'locals', 'bb', 'si', 'dest', 'ret_bb', 'caller', 'cgen')

    def copy(self):
        f = Frame()
        f.fid = self.fid
        f.fn = self.fn
        f.locals = dict(self.locals)
        f.bb = self.bb
        f.si = self.si
        f.dest = self.dest
        f.ret_bb = self.ret_bb
        f.caller = self.caller
        f.cgen = getattr(self, 'cgen', None)
        return f


class State:
    __slots__ = ('frames', 'stack', 'pc', 'events', 'nfid', 'ret', 'steps', 'aux', 'models')

    def __init__(self):
        self.frames = {}
        self.stack = []
        self.pc = []
        self.events = []
        self.nfid = 1
        self.ret = None
        self.steps = 0
        self.aux = {}
        self.models = []
        root = Frame()
        root.fid = 0
        root.fn = None
        root.locals = {}
        root.bb = root.si = 0
        root.dest = root.ret_bb = root.caller = None
        self.frames[0] = root

    def fork(self):
        s = State.__new__(State)
        s.frames = {k: f.copy() for k, f in self.frames.items()}
        s.stack = list(self.stack)
        s.pc = list(self.pc)
        s.events = list(self.events)
        s.nfid = self.nfid
        s.ret = self.ret
        s.steps = self.steps
        s.aux = dict(self.aux)
        s.models = list(self.models)
        return s

    def root(self):
        return self.frames[0].locals


class Fork:
    """returned by a summary that needs to branch: list of (cond, thunk) ; thunk(st) -> value"""

    def __init__(self, branches):
        self.branches = branches


class Multi:
    """returned by a higher-order summary that explored nested calls itself: list of (state, value)
    (value may be a PanicResult)"""

    def __init__(self, results):
        self.results = results


class PanicResult:
    def __init__(self, msg):
        self.msg = msg


class Program:
    """index over the Fn bodies of one or more MIR dumps"""

    def __init__(self):
        self.fns = []
        self.by_name = {}
        self.by_key = {}          # (self_head | None, method) -> [Fn]
        self.closures = {}        # span -> [Fn]
        self.promoted = {}        # (owner name, idx) -> Fn
        self.consts = {}          # last segment -> [Fn]

    def add_dump(self, text):
        fns = P.parse_mir(text)
        impl_head = {}
        for f in fns:
            m = re.match(r'^(?:[\w:]+::)?<impl at ([^>]*)>::', f.name)
            if m and f.kind == 'fn':
                span = m.group(1)
                if f.self_type:
                    impl_head.setdefault(span, type_head(f.self_type))
        for f in fns:
            m = re.match(r'^(?:[\w:]+::)?<impl at ([^>]*)>::', f.name)
            if m and f.kind == 'fn' and m.group(1) not in impl_head:
                impl_head[m.group(1)] = type_head(f.ret_type)
        seen = set()
        for f in fns:
            if f.name in seen and f.kind == 'fn':
                continue          # tuple-struct/variant constructors are dumped twice
            seen.add(f.name)
            self.fns.append(f)
            self.by_name.setdefault(f.name, f)
            if f.promoted_of is not None:
                self.promoted[(f.promoted_of, f.promoted_idx)] = f
                continue
            m = re.match(r'^(?:[\w:]+::)?<impl at ([^>]*)>::(.*)$', f.name)
            if m:
                head = impl_head.get(m.group(1))
                rest = m.group(2)
                if f.kind == 'const':
                    self.consts.setdefault(rest.split('::')[-1], []).append((head, f))
                elif '{closure' not in rest:
                    self.by_key.setdefault((head, rest), []).append(f)
            else:
                segs = f.name.split('::')
                if f.kind == 'const':
                    self.consts.setdefault(segs[-1], []).append((segs[-2] if len(segs) > 1 else None, f))
                elif '{closure' not in f.name:
                    self.by_key.setdefault((segs[-2] if len(segs) > 1 else None, segs[-1]), []).append(f)
                    self.by_key.setdefault((None, segs[-1]), []).append(f)
            if '{closure#' in f.name and f.arg_types:
                mc = re.search(r'\{closure@([^}]*)\}', f.arg_types[0])
                if mc:
                    self.closures.setdefault(mc.group(1), []).append(f)
        return fns

    def find(self, head, method):
        c = self.by_key.get((head, method))
        if not c and head is not None and head[:1].islower():
            # `module::function`: the dump does not always print the module prefix
            c = self.by_key.get((None, method))
        if c and len(c) == 1:
            return c[0]
        if c:
            # identical names in different modules: prefer exact unique name match later
            return c[0] if all(x is c[0] for x in c) else None
        return None


def type_head(t):
    """'&mut Lx_<'_, I, St>' -> 'Lx_' ; 'lexgen_util::Loc' -> 'Loc'"""
    t = t.strip()
    t = re.sub(r"^&('\w+ )?(mut )?", '', t).strip()
    m = re.match(r'^([\w:]+)', t)
    if not m:
        return t
    return m.group(1).split('::')[-1]


def call_key(func):
    """'Lx_::<..>::switch::<T>' -> ('Lx_', 'switch'); '<Peekable<I> as Iterator>::next' ->
    ('Peekable', 'next', 'Iterator')"""
    func = func.strip()
    if func.startswith('<'):
        # qualified path
        depth = 0
        j = 0
        for j, ch in enumerate(func):
            if ch == '<':
                depth += 1
            elif ch == '>' and func[j - 1] != '-':
                depth -= 1
                if depth == 0:
                    break
        inner = func[1:j]
        rest = func[j + 1:]
        parts = split_as(inner)
        self_ty = parts[0]
        trait = parts[1] if len(parts) > 1 else None
        segs = [s for s in P.split_top(rest.lstrip(':'), ':') if s and not s.startswith('<')]
        method = segs[-1] if segs else ''
        return (type_head(self_ty), method, type_head(trait) if trait else None)
    segs = [s for s in P.split_top(func, ':') if s and not s.startswith('<')]
    method = segs[-1]
    head = segs[-2] if len(segs) > 1 else None
    if head is not None:
        head = re.sub(r'<.*$', '', head)
    return (head, method, None)


def split_as(s):
    depth = 0
    for j in range(len(s)):
        ch = s[j]
        if ch in '<([':
            depth += 1
        elif ch in ')]' or (ch == '>' and s[j - 1] != '-'):
            depth -= 1
        elif depth == 0 and s.startswith(' as ', j):
            return [s[:j].strip(), s[j + 4:].strip()]
    return [s.strip()]


# ------------------------------------------------------------------------------------------------
# executor

_ARRAY_LEN_PARAM = re.compile(r'^&?(?:mut )?\[.*; ([A-Z][A-Z0-9_]*)\]$')


class Executor:
    def __init__(self, program, summaries=None, timeout_ms=20000, max_steps=200000):
        self.prog = program
        self.summaries = summaries or []
        self.overrides = []
        self.timeout_ms = timeout_ms
        self.reset_solver()
        self.queries = 0
        self.solver_time = 0.0
        self.max_steps = max_steps
        self.discr = dict(DISCR)
        self.statics = {}            # fid(<0) -> Frame  (promoted / named constants)
        self.const_cache = {}
        self.const_frames = {}
        self.next_static = -1
        self.paths = 0
        self.fn_cover = {}           # fn name -> set of executed bbs
        self.call_cache = {}
        self.cache_hits = 0
        self.deadline = None
        self.watch_fn = None
        self.cut_points = set()

    # ---------------------------------------------------------------- solver
    def lit(self, c):
        """assumption literal for a condition: `lit => c` is asserted once, queries then only pass
        literals, so z3 keeps its internalised terms and learned lemmas across the many similar
        queries of one exploration"""
        k = c.get_id()
        e = self.lits.get(k)
        if e is None:
            p = z3.Bool('__p%d' % len(self.lits))
            self.solver.add(z3.Implies(p, c))
            e = (p, c)
            self.lits[k] = e
        return e[0]

    def reset_solver(self, timeout_ms=None):
        self.solver = z3.Solver()
        self.solver.set('timeout', timeout_ms or self.timeout_ms)
        self.lits = {}

    def _assumptions(self, conds):
        out = []
        for c in conds:
            if isinstance(c, (bool, int)):
                if not c:
                    return None
                continue
            out.append(self.lit(c))
        return out

    def check(self, conds):
        """sat? for base assertions /\ conds (python bools allowed in conds)"""
        a = self._assumptions(conds)
        if a is None:
            return False
        self.queries += 1
        t = time.time()
        r = self.solver.check(*a)
        self.solver_time += time.time() - t
        if r == z3.unknown:
            raise SolverUnknown('solver returned unknown: ' + self.solver.reason_unknown())
        return r == z3.sat

    def model(self, conds):
        a = self._assumptions(conds)
        if a is None:
            return None
        self.queries += 1
        t = time.time()
        r = self.solver.check(*a)
        m = self.solver.model() if r == z3.sat else None
        self.solver_time += time.time() - t
        if r == z3.unknown:
            raise SolverUnknown('solver returned unknown: ' + self.solver.reason_unknown())
        return m

    def holds(self, m, cond):
        if isinstance(cond, (bool, int)):
            return bool(cond)
        return z3.is_true(m.eval(cond, model_completion=True))

    def sat_under(self, st, cond):
        """is st.pc /\ cond satisfiable?  -> (bool, models satisfying it).  Models known to satisfy
        st.pc are tried first (counterexample cache), the solver only decides what they cannot."""
        ok = [m for m in st.models if self.holds(m, cond)]
        if ok:
            self.cache_hits += 1
            return True, ok
        m = self.model(st.pc + [cond])
        if m is None:
            return False, []
        return True, [m]

    # ---------------------------------------------------------------- memory
    def frame_of(self, st, fid):
        if fid < 0:
            return self.statics[fid]
        return st.frames[fid]

    def load(self, st, fid, local, path):
        fr = self.frame_of(st, fid)
        try:
            v = fr.locals[local]
        except KeyError:
            raise Inconclusive('read of unassigned local %r in %s' % (local, fr.fn.name if fr.fn else 'root'))
        for p in path:
            v = self.project(v, p)
        return v

    def project(self, v, p):
        k = p[0]
        if k == 'f':
            if isinstance(v, (A, E)):
                return v.f[p[1]]
            if isinstance(v, Native):
                return self.native_field(v, p[1])
            raise Inconclusive('field %r of %r' % (p, v))
        if k == 'i':
            if isinstance(v, A):
                return v.f[p[1]]
            if isinstance(v, Native) and v.tag == 'vec':
                return v.p[0][p[1]]
            raise Inconclusive('index %r of %r' % (p, v))
        raise Inconclusive('projection %r' % (p,))

    def native_field(self, v, n):
        raise Inconclusive('field %d of native %s' % (n, v.tag))

    def store(self, st, fid, local, path, val):
        if fid < 0 and fid not in st.frames:
            raise Inconclusive('write to a constant')
        fr = st.frames[fid]
        if not path:
            fr.locals[local] = val
            return
        fr.locals[local] = self.rebuild(fr.locals[local], path, 0, val)

    def rebuild(self, v, path, i, val):
        if i == len(path):
            return val
        p = path[i]
        if p[0] in ('f', 'i') and isinstance(v, A):
            f = list(v.f)
            f[p[1]] = self.rebuild(f[p[1]], path, i + 1, val)
            return A(f)
        if p[0] == 'f' and isinstance(v, E):
            f = list(v.f)
            f[p[1]] = self.rebuild(f[p[1]], path, i + 1, val)
            return E(v.v, f)
        if p[0] == 'i' and isinstance(v, Native) and v.tag == 'vec':
            el = list(v.p[0])
            el[p[1]] = self.rebuild(el[p[1]], path, i + 1, val)
            return Native('vec', (tuple(el),))
        raise Inconclusive('write through %r into %r' % (p, v))

    def resolve(self, st, fr, place):
        """place (relative to frame fr) -> absolute (fid, local, path)"""
        local, projs = place
        fid, path = fr.fid, ()
        for p in projs:
            k = p[0]
            if k == 'deref':
                v = self.load(st, fid, local, path)
                if not isinstance(v, Ref):
                    raise Inconclusive('deref of non-reference %r' % (v,))
                fid, local, path = v.fid, v.local, v.path
            elif k == 'f':
                path = path + (p,)
            elif k == 'dc':
                v = self.load(st, fid, local, path)
                if isinstance(v, E) and v.v != p[1]:
                    raise Inconclusive('downcast to %r of %r' % (p[1], v))
            elif k == 'idx':
                iv = fr.locals[p[1]]
                if not iv.conc():
                    # only arrays of atomics may be indexed symbolically: the element reference is then consumed by the
                    # Atomic::load / store summaries, which keep the array contents as a z3 array in the state
                    base = self.load(st, fid, local, path)
                    if isinstance(base, A) and base.f and all(isinstance(x, Native) and x.tag == 'atomic' for x in base.f):
                        path = path + (('isym', iv.v),)
                        continue
                    raise Inconclusive('symbolic index')
                path = path + (('i', iv.v),)
            elif k == 'cidx':
                if p[2]:
                    raise Inconclusive('from-end index')
                path = path + (('i', p[1]),)
            else:
                raise Inconclusive('projection ' + repr(p))
        return fid, local, path

    def read_place(self, st, fr, place):
        fid, local, path = self.resolve(st, fr, place)
        return self.load(st, fid, local, path)

    def write_place(self, st, fr, place, val):
        fid, local, path = self.resolve(st, fr, place)
        self.store(st, fid, local, path, val)

    def deref(self, st, r):
        if not isinstance(r, Ref):
            raise Inconclusive('expected reference, got %r' % (r,))
        return self.load(st, r.fid, r.local, r.path)

    def assign_ref(self, st, r, val):
        self.store(st, r.fid, r.local, r.path, val)

    # ---------------------------------------------------------------- operands / rvalues
    def operand(self, st, fr, op):
        k = op[0]
        if k == 'copy' or k == 'move':
            return self.read_place(st, fr, op[1])
        if k == 'const':
            return self.const(st, fr, op[1])
        if k == 'fnitem':
            return self.fnitem(fr, op[1])
        raise Inconclusive('operand ' + repr(op))

    def const(self, st, fr, c):
        k = c[0]
        if k == 'int':
            return S(c[1], c[2])
        if k == 'bool':
            return S(1, c[1])
        if k == 'unit':
            return UNIT
        if k == 'str':
            return Native('str', (c[1],))
        if k == 'zst':
            t = c[1]
            if t.startswith('{closure@'):
                return self.closure_value(fr, t, captures=[])
            return self.fnitem(fr, t)
        if k == 'promoted':
            return self.eval_const_fn(self.prog.promoted.get((fr.fn.name, c[1])), '%s::promoted[%d]' % (fr.fn.name, c[1]))
        if k == 'alloc':
            owner = fr.fn
            sname = owner.allocs.get(c[1]) if owner is not None else None
            if sname is None:
                raise Inconclusive('unknown allocation ' + c[1])
            f = self.prog.by_name.get(sname)
            if f is None:
                cands = [x for x in self.prog.fns if x.kind == 'const' and (x.name == sname or x.name.endswith('::' + sname))]
                f = cands[0] if len(cands) == 1 else None
            if f is None:
                raise Inconclusive('static %s not found' % sname)
            self.eval_const_fn(f, sname)
            return Ref(self.const_frames[f.name], 0, ())
        if k == 'named':
            name = c[1]
            m = re.match(r'^<static\(DefId\(\d+:\d+ ~ \w+\[\w+\]::(.+)\)\)>$', name)
            if m:
                # reference to a static by definition path; the dump prints the shortest unambiguous path of the static
                path = m.group(1)
                cands = [x for x in self.prog.fns if x.kind == 'const' and (x.name == path or path.endswith('::' + x.name) or x.name.endswith('::' + path))]
                if len(cands) != 1:
                    raise Inconclusive('static %s: %d candidates' % (path, len(cands)))
                self.eval_const_fn(cands[0], path)
                return Ref(self.const_frames[cands[0].name], 0, ())
            last = [s for s in P.split_top(name, ':') if s][-1]
            last = last.strip()
            if last in self.discr:
                return E(last)          # constant unit variant, e.g. `const LexerErrorKind::<E>::InvalidToken`
            cands = self.prog.consts.get(last, [])
            if re.match(r'^[A-Z][A-Z0-9_]*$', name):
                # const generic parameter of the current function, or - inside a closure - of the generic function
                # that created it (closures run inside the dynamic extent of their creator)
                me = fr.fn.name if fr is not None and fr.fn is not None else ''
                for fid in reversed(st.stack):
                    f2 = st.frames.get(fid)
                    if f2 is None or f2.fn is None:
                        continue
                    if f2.fid == fr.fid or me.startswith(f2.fn.name + '::{closure'):
                        cg = getattr(f2, 'cgen', None)
                        if cg and name in cg:
                            return S(64, cg[name])
            if len(cands) == 1:
                return self.eval_const_fn(cands[0][1], name)
            head = call_key(name)[0]
            for h, f in cands:
                if h == head:
                    return self.eval_const_fn(f, name)
            if len(cands) > 1 and fr is not None and fr.fn is not None:
                # same-named constants of different modules (macro-generated): the one defined nearest in the dump
                near = min(cands, key=lambda hf: abs(hf[1].text_line - fr.fn.text_line))
                return self.eval_const_fn(near[1], name)
            return self.fnitem(fr, name)
        raise Inconclusive('const ' + repr(c))

    def eval_const_fn(self, f, what):
        if f is None:
            raise Inconclusive('unknown constant ' + what)
        if f.name in self.const_cache:
            return self.const_cache[f.name]
        st = State()
        fid = self.next_static
        self.next_static -= 1
        fr = Frame()
        fr.fid = fid
        fr.fn = f
        fr.locals = {}
        fr.bb = 0
        fr.si = 0
        fr.dest = None
        fr.ret_bb = None
        fr.caller = None
        self.statics[fid] = fr
        # run to completion; the frame is static, so address it through self.statics
        st.frames[fid] = fr
        st.stack.append(fid)
        res = self.run(st, keep_frame=True)
        if len(res) != 1 or res[0][0] != 'return':
            raise Inconclusive('constant %s did not evaluate to a single value' % what)
        self.const_cache[f.name] = res[0][2]
        self.const_frames[f.name] = fid
        fr.locals[0] = res[0][2]
        return res[0][2]

    def closure_value(self, fr, t, captures=None):
        m = re.match(r'\{closure@([^}]*)\}', t)
        span = m.group(1)
        cands = self.prog.closures.get(span, [])
        if len(cands) > 1 and fr is not None and fr.fn is not None:
            pre = fr.fn.name + '::{closure#'
            c2 = [f for f in cands if f.name.startswith(pre) and '::' not in f.name[len(pre):]]
            if len(c2) >= 1:
                cands = c2
        if len(cands) > 1 and captures is not None:
            # several closures of one function share the macro call-site span: tell them apart by what they capture
            c3 = [f for f in cands if sorted(f.captures) == sorted(captures)]
            if len(c3) == 1:
                cands = c3
        if len(cands) != 1:
            raise Inconclusive('cannot resolve closure %s (%d candidates)' % (t, len(cands)))
        return FnP(cands[0].name, 'closure', cands[0])

    def fnitem(self, fr, text):
        key = (fr.fn.name if fr is not None and fr.fn is not None else None, text)
        if key in self.call_cache:
            return self.call_cache[key]
        v = self._fnitem(fr, text)
        self.call_cache[key] = v
        return v

    def _fnitem(self, fr, text):
        text = text.strip()
        if text.startswith('{closure@'):
            return self.closure_value(fr, text)
        f = self.lookup_fn(text)
        if f is not None:
            return FnP(f.name, 'fn', f)
        head, method, trait = call_key(text)
        if method and method[0].isupper():
            return FnP(method, 'ctor')
        return FnP(text, 'ext')

    def lookup_fn(self, text):
        if text in self.prog.by_name:
            return self.prog.by_name[text]
        head, method, trait = call_key(text)
        f = self.prog.find(head, method)
        if f is not None:
            return f
        return None

    def rvalue(self, st, fr, rv):
        k = rv[0]
        if k == 'use':
            return self.operand(st, fr, rv[1])
        if k == 'ref':
            fid, local, path = self.resolve(st, fr, rv[1])
            return Ref(fid, local, path)
        if k == 'bin':
            return self.binop(st, rv[1], self.operand(st, fr, rv[2]), self.operand(st, fr, rv[3]))
        if k == 'un':
            a = self.operand(st, fr, rv[2])
            if rv[1] == 'Not' and isinstance(a, S):
                if a.w == 1:
                    return S(1, (1 - a.v) if a.conc() else z3.Not(a.v))
                if not a.conc() and not z3.is_bv(a.v):
                    return S(a.w, mask(a.w) - a.v)
                return S(a.w, (~a.v) & mask(a.w) if a.conc() else ~a.v)
            if rv[1] == 'Neg' and isinstance(a, S):
                if not a.conc() and not z3.is_bv(a.v):
                    return S(a.w, z3.If(a.v == 0, a.v, (1 << a.w) - a.v))
                return S(a.w, (-a.v) & mask(a.w) if a.conc() else -a.v)
            if rv[1] == 'PtrMetadata':
                # length of the slice / array behind a (fat) reference
                tgt = self.deref(st, a) if isinstance(a, Ref) else a
                if isinstance(tgt, A):
                    return S(64, len(tgt.f))
                if isinstance(tgt, Native) and tgt.tag == 'vec':
                    return S(64, len(tgt.p[0]))
                raise Inconclusive('PtrMetadata of %r' % (tgt,))
            raise Inconclusive('unop ' + rv[1])
        if k == 'discr':
            v = self.read_place(st, fr, rv[1])
            if not isinstance(v, E):
                raise Inconclusive('discriminant of %r' % (v,))
            d = v.v if isinstance(v.v, int) else self.discr.get(v.v)
            if d is None:
                raise Inconclusive('unknown discriminant of variant %r' % (v.v,))
            return S(64, d & mask(64))
        if k == 'tuple' or k == 'array':
            return A([self.operand(st, fr, x) for x in rv[1]])
        if k == 'struct':
            return A([self.operand(st, fr, x) for _, x in rv[2]])
        if k == 'variant':
            path, ops = rv[1], rv[2]
            segs = [s for s in P.split_top(path, ':') if s and not s.startswith('<')]
            name = segs[-1]
            args = [self.operand(st, fr, x) for x in ops]
            if name in self.discr or (len(segs) > 1 and name[0].isupper() and self.is_enum_variant(segs, name)):
                return E(name, args)
            # tuple struct (e.g. `Lx_(lexer)`) or unit struct
            return A(args)
        if k == 'cast':
            return self.cast(st, fr, rv)
        if k == 'len':
            v = self.read_place(st, fr, rv[1])
            if isinstance(v, A):
                return S(64, len(v.f))
            if isinstance(v, Native) and v.tag == 'vec':
                return S(64, len(v.p[0]))
            raise Inconclusive('Len of %r' % (v,))
        if k == 'repeat':
            n = rv[2]
            m = re.match(r'^(?:const )?(\d+)(_usize)?$', n)
            if not m:
                raise Inconclusive('repeat count ' + n)
            x = self.operand(st, fr, rv[1])
            return A([x] * int(m.group(1)))
        if k == 'closure':
            c = self.closure_value(fr, rv[1], captures=[n for n, _ in rv[2]])
            if rv[2]:
                return FnP(c.name, 'closure', c.fn, A([self.operand(st, fr, x) for _, x in rv[2]]))
            return c
        raise Inconclusive('rvalue ' + repr(rv))

    def is_enum_variant(self, segs, name):
        # `Type::Variant` with a known discriminant table entry, or registered by the harness
        return name in self.discr

    def cast(self, st, fr, rv):
        _, op, ty, kind = rv
        if kind.startswith('PointerCoercion'):
            if 'ReifyFnPointer' in kind or 'ClosureFnPointer' in kind:
                return self.operand(st, fr, op)
            return self.operand(st, fr, op)     # Unsize etc.: same referent
        a = self.operand(st, fr, op)
        if kind in ('IntToInt', 'Transmute'):
            it = P.int_type(ty)
            if it is None or not isinstance(a, S):
                if kind == 'Transmute':
                    return a
                raise Inconclusive('cast to ' + ty)
            w = it[0]
            if a.w == w:
                return a
            if a.w == 1:
                return S(w, a.v if a.conc() else z3.If(a.v, z3.IntVal(1), z3.IntVal(0)))
            if a.conc():
                return S(w, a.v & mask(w))
            if z3.is_bv(a.v):
                if w < a.w:
                    return S(w, z3.Extract(w - 1, 0, a.v))
                return S(w, z3.ZeroExt(w - a.w, a.v))   # all sources in scope are unsigned
            if w < a.w:
                # narrowing: if the value provably fits on this path the cast is the identity
                fits, _ = self.sat_under(st, a.v >= (1 << w))
                if not fits:
                    return S(w, a.v)
                return S(w, a.v % (1 << w))
            return S(w, a.v)
        if kind in ('PtrToPtr', 'FnPtrToPtr'):
            return a
        raise Inconclusive('cast kind ' + kind)

    def binop(self, st, name, a, b):
        """bit-precise semantics.  Symbolic integers are z3 *Int* terms kept in [0, 2^w) with explicit
        wrap-around (decides order/offset constraints in milliseconds where bit-blasting needs
        seconds); z3 bit-vector terms are accepted too (used for abstract bit-set values)."""
        if not isinstance(a, S) or not isinstance(b, S):
            raise Inconclusive('binop %s on %r, %r' % (name, a, b))
        w = a.w
        conc = a.conc() and b.conc()
        x, y = a.v, b.v
        isbv = z3.is_bv(x) or z3.is_bv(y)
        if name in ('Eq', 'Ne', 'Lt', 'Le', 'Gt', 'Ge'):
            if conc:
                r = {'Eq': x == y, 'Ne': x != y, 'Lt': x < y, 'Le': x <= y, 'Gt': x > y, 'Ge': x >= y}[name]
                return S(1, int(r))
            if w == 1:
                x, y = zbool(x), zbool(y)
                if name == 'Eq':
                    return S(1, x == y)
                if name == 'Ne':
                    return S(1, x != y)
                raise Inconclusive('ordering on bool')
            if isbv:
                x, y = bv(w, x), bv(w, y)
                r = {'Eq': lambda: x == y, 'Ne': lambda: x != y, 'Lt': lambda: z3.ULT(x, y),
                     'Le': lambda: z3.ULE(x, y), 'Gt': lambda: z3.UGT(x, y), 'Ge': lambda: z3.UGE(x, y)}[name]()
            else:
                r = {'Eq': lambda: x == y, 'Ne': lambda: x != y, 'Lt': lambda: x < y,
                     'Le': lambda: x <= y, 'Gt': lambda: x > y, 'Ge': lambda: x >= y}[name]()
            return S(1, r)
        if name in ('AddWithOverflow', 'SubWithOverflow', 'MulWithOverflow'):
            if conc:
                full = {'A': x + y, 'S': x - y, 'M': x * y}[name[0]]
                return A([S(w, full & mask(w)), S(1, int(full < 0 or full > mask(w)))])
            if isbv:
                x, y = bv(w, x), bv(w, y)
                if name[0] == 'A':
                    return A([S(w, x + y), S(1, z3.Not(z3.BVAddNoOverflow(x, y, False)))])
                if name[0] == 'S':
                    return A([S(w, x - y), S(1, z3.ULT(x, y))])
                return A([S(w, x * y), S(1, z3.Not(z3.BVMulNoOverflow(x, y, False)))])
            m = 1 << w
            if name[0] in 'AS':
                r = (x + y) if name[0] == 'A' else (x - y)
                ovf = (r >= m) if name[0] == 'A' else (r < 0)
                # decide right here whether the operation can overflow on this path (the same query
                # the following `assert(!overflow)` would pose); if it cannot, the result is the
                # plain sum and later queries stay free of wrap-around conditionals
                feasible, _ = self.sat_under(st, ovf)
                if not feasible:
                    return A([S(w, r), S(1, 0)])
                wrapped = z3.If(ovf, r - m, r) if name[0] == 'A' else z3.If(ovf, r + m, r)
                return A([S(w, wrapped), S(1, ovf)])
            if not (a.conc() or b.conc()):
                raise Inconclusive('symbolic * symbolic')
            r = x * y
            return A([S(w, r % m), S(1, r >= m)])
        if name in ('Add', 'Sub', 'Mul', 'BitAnd', 'BitOr', 'BitXor', 'AddUnchecked', 'SubUnchecked',
                    'MulUnchecked'):
            n = name.replace('Unchecked', '')
            if w == 1:
                if conc:
                    r = {'BitAnd': x & y, 'BitOr': x | y, 'BitXor': x ^ y}[n]
                    return S(1, r)
                x, y = zbool(x), zbool(y)
                return S(1, {'BitAnd': lambda: z3.And(x, y), 'BitOr': lambda: z3.Or(x, y),
                             'BitXor': lambda: z3.Xor(x, y)}[n]())
            if conc:
                r = {'Add': x + y, 'Sub': x - y, 'Mul': x * y, 'BitAnd': x & y,
                     'BitOr': x | y, 'BitXor': x ^ y}[n]
                return S(w, r & mask(w))
            if isbv:
                x, y = bv(w, x), bv(w, y)
                r = {'Add': lambda: x + y, 'Sub': lambda: x - y, 'Mul': lambda: x * y,
                     'BitAnd': lambda: x & y, 'BitOr': lambda: x | y, 'BitXor': lambda: x ^ y}[n]()
                return S(w, r)
            m = 1 << w
            if n == 'Add':
                r = x + y
                return S(w, z3.If(r >= m, r - m, r))
            if n == 'Sub':
                r = x - y
                return S(w, z3.If(r < 0, r + m, r))
            if n == 'Mul' and (a.conc() or b.conc()):
                return S(w, (x * y) % m)
            if n == 'BitAnd' and (a.conc() or b.conc()):
                k_, t_ = (x, y) if a.conc() else (y, x)
                if k_ & (k_ + 1) == 0:             # mask 2^j - 1: the low j bits
                    return S(w, t_ % (k_ + 1))
            if n in ('BitOr', 'BitXor'):
                # operands with disjoint bits (`hi << j | lo` with lo < 2^j): the sum
                for j in (8, 16, 24, 4, 1, 2, 12, 20):
                    for hi_, lo_ in ((x, y), (y, x)):
                        hz = (hi_ % (1 << j) == 0) if not isinstance(hi_, int) else (hi_ % (1 << j) == 0)
                        lz = (lo_ < (1 << j)) if not isinstance(lo_, int) else (lo_ < (1 << j))
                        bad = z3.Not(z3.And(hz, lz)) if not (isinstance(hz, bool) and isinstance(lz, bool)) else (not (hz and lz))
                        if isinstance(bad, bool):
                            if not bad:
                                return S(w, hi_ + lo_)
                            continue
                        feasible, _ = self.sat_under(st, bad)
                        if not feasible:
                            return S(w, hi_ + lo_)
            raise Inconclusive('bit operation %s on integer-encoded symbolic values' % n)
        if name in ('Shl', 'Shr', 'ShlUnchecked', 'ShrUnchecked') and conc:
            sh = y
            if name.startswith('Shl'):
                return S(w, (x << sh) & mask(w))
            return S(w, x >> sh)
        if name in ('Shl', 'ShlUnchecked') and b.conc() and not isbv and w > 1 and 0 <= y < w:
            # shift of an integer-encoded value by a constant: multiplication; whether bits are shifted out is
            # decided here (as for additions), so the common no-wrap case stays linear
            m = 1 << w
            r = x * (1 << y)
            feasible, _ = self.sat_under(st, r >= m)
            return S(w, (r % m) if feasible else r)
        if name in ('Shr', 'ShrUnchecked') and b.conc() and not isbv and w > 1 and 0 <= y < w:
            return S(w, x / (1 << y))       # z3 Int division of a non-negative term = floor
        if name in ('Div', 'Rem') and b.conc() and not a.conc() and not isbv and isinstance(y, int) and y > 0 and w > 1:
            return S(w, (x / y) if name == 'Div' else (x % y))      # unsigned, integer-encoded: floor division / modulo
        if name in ('Div', 'Rem') and conc and y != 0:
            return S(w, x // y if name == 'Div' else x % y)
        raise Inconclusive('binop ' + name)

    # ---------------------------------------------------------------- running
    def push_call(self, st, f, args, dest, ret_bb, caller_fid):
        fr = Frame()
        fr.fid = st.nfid
        st.nfid += 1
        fr.fn = f
        fr.locals = {}
        for i, a in enumerate(args):
            fr.locals[i + 1] = a
        fr.bb = 0
        fr.si = 0
        fr.dest = dest
        fr.ret_bb = ret_bb
        fr.caller = caller_fid
        if self.watch_fn is not None and f.name == self.watch_fn:
            # recursion depth of the watched function (frames of it already on the stack)
            dpt = sum(1 for fid_ in st.stack if st.frames.get(fid_) is not None and st.frames[fid_].fn is f)
            if dpt > st.aux.get('rec_depth', 0):
                st.aux['rec_depth'] = dpt
        # const generic parameters that are array lengths of parameters (`_2: &[T; N]`): bound from the actual argument
        cg = None
        for i, t in enumerate(getattr(f, 'arg_types', None) or []):
            m = _ARRAY_LEN_PARAM.search(t)
            if m and i < len(args):
                v = args[i]
                try:
                    if isinstance(v, Ref):
                        v = self.deref(st, v)
                except Inconclusive:
                    v = None
                if isinstance(v, A):
                    cg = cg or {}
                    cg[m.group(1)] = len(v.f)
        fr.cgen = cg
        st.frames[fr.fid] = fr
        st.stack.append(fr.fid)
        return fr

    def call_fn(self, st, f, args):
        """explore all paths of f(args) from state st (st is consumed).
        -> list of (kind, state, value): kind 'return' | 'panic'"""
        if isinstance(f, str):
            ff = self.lookup_fn(f)
            if ff is None:
                raise Inconclusive('no MIR for ' + f)
            f = ff
        base = len(st.stack)
        self.push_call(st, f, args, None, None, None)
        return self.run(st, base=base)

    def run(self, st0, base=0, keep_frame=False):
        results = []
        work = [st0]
        while work:
            st = work.pop()
            try:
                self.run_path(st, work, results, base, keep_frame)
            except RecursionError:
                raise Inconclusive('recursion limit')
            except Inconclusive as e:
                if st.stack and not getattr(e, 'located', False):
                    fr = st.frames.get(st.stack[-1])
                    if fr is not None and fr.fn is not None:
                        e.args = ('%s  [at %s bb%d #%d: %r]' % (e.args[0] if e.args else '', fr.fn.name, fr.bb, fr.si,
                                                               fr.fn.blocks[fr.bb][fr.si] if fr.si < len(fr.fn.blocks[fr.bb]) else None),)
                        e.located = True
                raise
        return results

    def finish(self, results, kind, st, val):
        self.paths += 1
        results.append((kind, st, val))

    def run_path(self, st, work, results, base, keep_frame):
        prog = self.prog
        while True:
            st.steps += 1
            if st.steps > self.max_steps:
                raise Inconclusive('step bound exceeded')
            if self.deadline is not None and (st.steps & 255) == 0 and time.process_time() > self.deadline:
                raise OverBudget('time budget for this definition exhausted')
            fr = st.frames[st.stack[-1]]
            block = fr.fn.blocks[fr.bb]
            if fr.si == 0:
                self.fn_cover.setdefault(fr.fn.name, set()).add(fr.bb)
                if self.cut_points and (fr.fn.name, fr.bb) in self.cut_points:
                    if st.aux.get('cut_armed'):
                        self.finish(results, 'cut', st, None)
                        return
                    st.aux['cut_armed'] = True
            ins = block[fr.si]
            k = ins[0]
            if k == 'assign':
                self.write_place(st, fr, ins[1], self.rvalue(st, fr, ins[2]))
                fr.si += 1
                continue
            if k == 'goto':
                fr.bb, fr.si = ins[1], 0
                continue
            if k == 'switch':
                v = self.operand(st, fr, ins[1])
                if not isinstance(v, S):
                    raise Inconclusive('switch on %r' % (v,))
                tgt = self.switch(st, v, ins[2], ins[3])
                if not tgt:
                    return    # infeasible path (can happen after an assumption)
                for cond, bbn, ms in tgt[1:]:
                    s2 = st.fork()
                    if cond is not None:
                        s2.pc.append(cond)
                    if ms is not None:
                        s2.models = ms
                    f2 = s2.frames[s2.stack[-1]]
                    f2.bb, f2.si = bbn, 0
                    work.append(s2)
                cond, bbn, ms = tgt[0]
                if cond is not None:
                    st.pc.append(cond)
                if ms is not None:
                    st.models = ms
                fr.bb, fr.si = bbn, 0
                continue
            if k == 'call':
                r = self.do_call(st, fr, ins, work, results)
                if r == 'dead':
                    return
                continue
            if k == 'return':
                val = fr.locals.get(0, UNIT)
                st.stack.pop()
                if not keep_frame:
                    del st.frames[fr.fid]
                if len(st.stack) == base:
                    st.ret = val
                    self.finish(results, 'return', st, val)
                    return
                caller = st.frames[st.stack[-1]]
                if fr.dest is not None:
                    self.write_place(st, caller, fr.dest, val)
                if fr.ret_bb is None:
                    raise Inconclusive('return from diverging call')
                caller.bb, caller.si = fr.ret_bb, 0
                continue
            if k == 'assert':
                v = self.operand(st, fr, ins[1])
                expected = ins[2]
                if v.conc():
                    ok = bool(v.v) == expected
                    if not ok:
                        self.finish(results, 'panic', st, ins[3])
                        return
                    fr.bb, fr.si = ins[4], 0
                    continue
                good = v.v if expected else z3.Not(v.v)
                bad = z3.Not(good)
                okb, msb = self.sat_under(st, bad)
                if okb:
                    s2 = st.fork()
                    s2.pc.append(bad)
                    s2.models = msb
                    self.finish(results, 'panic', s2, ins[3])
                    okg, msg_ = self.sat_under(st, good)
                    if not okg:
                        return
                    st.pc.append(good)
                    st.models = msg_
                fr.bb, fr.si = ins[4], 0
                continue
            if k == 'unreachable':
                raise Inconclusive('reached `unreachable` in ' + fr.fn.name)
            if k == 'unsupported':
                raise Inconclusive('unsupported MIR statement: ' + ins[1])
            raise Inconclusive('instruction ' + repr(ins))

    def switch(self, st, v, targets, otherwise):
        """-> list of (cond|None, bb) of feasible branches"""
        if v.conc():
            for kv, b in targets:
                if (kv & mask(v.w)) == v.v:
                    return [(None, b, None)]
                # discriminants are produced as 64-bit two's complement; rustc prints negative
                # ones (Ordering::Less) in the width of the enum's tag
                if v.w == 64 and v.v >> 63 and kv in (v.v & 0xFF, v.v & 0xFFFF, v.v & 0xFFFFFFFF):
                    return [(None, b, None)]
            if otherwise is None:
                raise Inconclusive('switch fell through')
            return [(None, otherwise, None)]
        out = []
        if v.w == 1:
            for kv, b in targets:
                c = z3.Not(v.v) if kv == 0 else v.v
                ok, ms = self.sat_under(st, c)
                if ok:
                    out.append((c, b, ms))
            if otherwise is not None:
                # targets is [0: ..] normally
                neg = [(v.v if kv == 0 else z3.Not(v.v)) for kv, _ in targets]
                c = z3.And(*neg) if len(neg) > 1 else neg[0]
                ok, ms = self.sat_under(st, c)
                if ok:
                    out.append((c, otherwise, ms))
            return out
        x = v.v
        neqs = []
        for kv, b in targets:
            c = (x == (kv & mask(v.w)))
            neqs.append(x != (kv & mask(v.w)))
            ok, ms = self.sat_under(st, c)
            if ok:
                out.append((c, b, ms))
        if otherwise is not None:
            c = z3.And(*neqs) if len(neqs) > 1 else (neqs[0] if neqs else None)
            if c is None:
                out.append((None, otherwise, list(st.models)))
            else:
                ok, ms = self.sat_under(st, c)
                if ok:
                    out.append((c, otherwise, ms))
        return out

    def do_call(self, st, fr, ins, work, results):
        _, dest, f, argops, ret_bb = ins
        args = [self.operand(st, fr, a) for a in argops]
        target = None
        text = None
        if f[0] == 'ptr':
            target = self.operand(st, fr, f[1])
            if not isinstance(target, FnP):
                raise Inconclusive('call through %r' % (target,))
        else:
            text = f[1]
            target = self.fnitem(fr, text)
        return self.invoke(st, fr, target, text, args, dest, ret_bb, work, results)

    def invoke(self, st, fr, target, text, args, dest, ret_bb, work, results):
        if target.kind == 'fn':
            # only harness overrides (vlog, decide, ...) take precedence over a MIR body; std
            # summaries are used for callees without a body
            h = self.find_override(text or target.name)
            if h is None:
                self.push_call(st, target.fn, args, dest, ret_bb, fr.fid)
                return None
        elif target.kind == 'closure':
            self.push_call(st, target.fn, [self.env_ref(st, target)] + list(args), dest, ret_bb, fr.fid)
            return None
        elif target.kind == 'ctor':
            val = E(target.name, args) if target.name in self.discr else A(args)
            return self.after_call(st, fr, dest, ret_bb, val)
        else:
            h = self.find_summary(text or target.name)
        if h is None:
            raise Inconclusive('no MIR body and no summary for call to `%s`' % (text or target.name))
        res = h(self, st, fr, text or target.name, args)
        if isinstance(res, Fork):
            live = []
            for cond, thunk in res.branches:
                if cond is None or cond is True:
                    live.append((None, thunk, None))
                elif cond is False:
                    continue
                else:
                    ok, ms = self.sat_under(st, cond)
                    if ok:
                        live.append((cond, thunk, ms))
            if not live:
                return 'dead'
            for cond, thunk, ms in live[1:]:
                s2 = st.fork()
                if cond is not None:
                    s2.pc.append(cond)
                if ms is not None:
                    s2.models = ms
                f2 = s2.frames[fr.fid]
                v2 = thunk(s2)
                if isinstance(v2, PanicResult):
                    self.finish(results, 'panic', s2, v2.msg)
                    continue
                self.after_call(s2, f2, dest, ret_bb, v2)
                work.append(s2)
            cond, thunk, ms = live[0]
            if cond is not None:
                st.pc.append(cond)
            if ms is not None:
                st.models = ms
            v = thunk(st)
            if isinstance(v, PanicResult):
                self.finish(results, 'panic', st, v.msg)
                return 'dead'
            return self.after_call(st, fr, dest, ret_bb, v)
        if isinstance(res, Multi):
            for s2, v in res.results:
                if isinstance(v, PanicResult):
                    self.finish(results, 'panic', s2, v.msg)
                    continue
                self.after_call(s2, s2.frames[fr.fid], dest, ret_bb, v)
                work.append(s2)
            return 'dead'
        if isinstance(res, PanicResult):
            self.finish(results, 'panic', st, res.msg)
            return 'dead'
        if isinstance(res, tuple) and res and res[0] == 'tailcall':
            # summary asks to call a MIR function instead: ('tailcall', FnP, args)
            return self.invoke(st, fr, res[1], None, res[2], dest, ret_bb, work, results)
        return self.after_call(st, fr, dest, ret_bb, res)

    def env_ref(self, st, clo):
        by_ref = True
        if clo.fn is not None and clo.fn.arg_types:
            by_ref = clo.fn.arg_types[0].strip().startswith('&')
        if clo.env is None:
            return UNIT
        if not by_ref:
            return clo.env          # FnOnce closures take their environment by value
        k = '__env%d' % st.nfid
        st.nfid += 1
        st.root()[k] = clo.env
        return Ref(0, k, ())

    def after_call(self, st, fr, dest, ret_bb, val):
        if dest is not None:
            self.write_place(st, fr, dest, val)
        if ret_bb is None:
            raise Inconclusive('diverging call returned')
        fr.bb, fr.si = ret_bb, 0
        return None

    def find_override(self, text):
        for rx, h in self.overrides:
            if rx.search(text):
                return h
        return None

    def find_summary(self, text):
        c = self.call_cache.get(('S', text), 0)
        if c != 0:
            return c
        r = None
        for rx, h in self.summaries:
            if rx.search(text):
                r = h
                break
        self.call_cache[('S', text)] = r
        return r
