"""Summaries of the std / third-party items the analysed code calls.  Each is written from the
item's documented contract; together they are the trusted base of engine M and are listed in every
evidence file (see SUMMARY_DOC).  A summary receives already-evaluated argument values and returns
a value, a `Fork` (the executor decides feasibility of each branch with z3) or a `PanicResult`.
"""
import re

import z3

from .exec import (S, A, E, Ref, FnP, Native, UNIT, TRUE, FALSE, Fork, PanicResult, Inconclusive, Multi,
                   bv, zbool, mask)

SUMMARY_DOC = []
TABLE = []


def summary(rx, doc):
    def deco(f):
        TABLE.append((re.compile(rx), f))
        SUMMARY_DOC.append(doc)
        return f
    return deco


def none():
    return E('None')


def some(x):
    return E('Some', (x,))


# ------------------------------------------------------------------------------------------------
# iterators (dynamic dispatch on the value, because MIR is pre-monomorphisation)

def iter_next(ex, st, r):
    """r: Ref to an iterator value. -> value | Fork"""
    it = ex.deref(st, r)
    hops = 0
    while isinstance(it, Ref) and hops < 4:
        # `impl Iterator for &mut I`: forwards to the iterator behind the reference
        r = it
        it = ex.deref(st, r)
        hops += 1
    if isinstance(it, Native):
        if it.tag == 'input':
            return input_next(ex, st, r, it)
        if it.tag == 'vecit':
            elems, pos = it.p
            if pos < len(elems):
                ex.assign_ref(st, r, Native('vecit', (elems, pos + 1)))
                return some(elems[pos])
            return none()
        if it.tag == 'sliceit':
            base, pos, end = it.p
            if pos < end:
                ex.assign_ref(st, r, Native('sliceit', (base, pos + 1, end)))
                return some(Ref(base.fid, base.local, base.path + (('i', pos),)))
            return none()
        if it.tag == 'rangeinc':
            return rangeinc_next(ex, st, r, it)
        raise Inconclusive('next() on native ' + it.tag)
    if isinstance(it, A) and len(it.f) == 3 and all(isinstance(x, S) for x in it.f):
        return rangeinc_next(ex, st, r, it)
    if isinstance(it, A) and len(it.f) == 2 and all(isinstance(x, S) for x in it.f):
        # Range<u32> { start, end }: yields start while start < end
        start, end = it.f
        lt = ex.binop(st, 'Lt', start, end)

        def step(s2):
            ex.assign_ref(s2, r, A((ex.binop(s2, 'Add', start, S(start.w, 1)), end)))
            return some(start)
        if lt.conc():
            return step(st) if lt.v else none()
        return Fork([(lt.v, step), (z3.Not(zbool(lt.v)), lambda s2: none())])
    if isinstance(it, A) and len(it.f) == 2 and isinstance(it.f[1], E) and it.f[1].v in ('None', 'Some'):
        # Peekable { iter, peeked: Option<Option<Item>> }
        peeked = it.f[1]
        if peeked.v == 'Some':
            ex.assign_ref(st, r, A((it.f[0], none())))
            return peeked.f[0]
        inner = Ref(r.fid, r.local, r.path + (('f', 0),))
        return iter_next(ex, st, inner)
    raise Inconclusive('next() on %r' % (it,))


def input_next(ex, st, r, it):
    """the harness input: st.aux['input'] = (chars: list of S(32), length: S(64) symbolic or concrete)"""
    pos = it.p[0]
    chars, ln = st.aux['input']
    n = len(chars)

    def adv(s2):
        ex.assign_ref(s2, r, Native('input', (pos + 1,)))
        s2.aux['consumed'] = max(s2.aux.get('consumed', 0), pos + 1)
        return some(chars[pos])

    def stop(s2):
        s2.aux['saw_end'] = True
        return none()
    if ln.conc():
        if pos < ln.v:
            return adv(st)
        return stop(st)
    if pos >= n:
        return stop(st)
    return Fork([(ln.v > pos, adv), (ln.v == pos, stop)])


def rangeinc_next(ex, st, r, it):
    """RangeInclusive<u32>::next: value A((start, end, exhausted)).
    if exhausted || start > end: None; elif start < end: yield start, start += 1;
    else: yield start, exhausted = true"""
    start, end, exh = it.f
    if not exh.conc():
        raise Inconclusive('symbolic exhausted flag')
    if exh.v:
        return none()
    lt = ex.binop(st, 'Lt', start, end)
    eq = ex.binop(st, 'Eq', start, end)

    def step(s2):
        ex.assign_ref(s2, r, A((ex.binop(s2, 'Add', start, S(start.w, 1)), end, exh)))
        return some(start)

    def last(s2):
        ex.assign_ref(s2, r, A((start, end, TRUE)))
        return some(start)
    if lt.conc() and eq.conc():
        if lt.v:
            return step(st)
        if eq.v:
            return last(st)
        return none()
    return Fork([(lt.v, step), (eq.v, last), (z3.And(z3.Not(zbool(lt.v)), z3.Not(zbool(eq.v))), lambda s2: none())])


@summary(r'as (std::iter::)?Iterator>::next$', 'Iterator::next for Peekable<I>, vec::IntoIter, slice::Iter and the harness input iterator: yields the elements in order, then None')
def s_iter_next(ex, st, fr, text, args):
    return iter_next(ex, st, args[0])


@summary(r'as (std::iter::)?Iterator>::peekable$', 'Iterator::peekable: wraps the iterator, nothing peeked')
def s_peekable(ex, st, fr, text, args):
    return A((args[0], none()))


@summary(r'^(std::iter::)?Peekable::<.*>::peek$', 'Peekable::peek: returns a reference to the next item without advancing; the item is buffered')
def s_peek(ex, st, fr, text, args):
    r = args[0]
    it = ex.deref(st, r)
    peeked = it.f[1]

    def result(s2):
        cur = ex.deref(s2, r).f[1]
        inner = cur.f[0]
        if inner.v == 'Some':
            return some(Ref(r.fid, r.local, r.path + (('f', 1), ('f', 0), ('f', 0))))
        return none()
    if peeked.v == 'Some':
        return result(st)
    inner_ref = Ref(r.fid, r.local, r.path + (('f', 0),))
    nx = iter_next(ex, st, inner_ref)

    def fill(s2, v):
        cur = ex.deref(s2, r)
        ex.assign_ref(s2, r, A((cur.f[0], some(v))))
        return result(s2)
    if isinstance(nx, Fork):
        return Fork([(c, (lambda th: (lambda s2: fill(s2, th(s2))))(th)) for c, th in nx.branches])
    return fill(st, nx)


@summary(r'^(std::option::)?Option::<&.*>::copied$', 'Option<&T>::copied: dereferences the payload')
def s_copied(ex, st, fr, text, args):
    o = args[0]
    if o.v == 'None':
        return none()
    return some(ex.deref(st, o.f[0]))


@summary(r' as Clone>::clone$', 'Clone::clone for Copy-like values, Peekable and the abstract value type: structural copy')
def s_clone(ex, st, fr, text, args):
    return ex.deref(st, args[0])


@summary(r'^(std::option::)?Option::<.*>::take$', 'Option::take: returns the value, leaves None')
def s_take(ex, st, fr, text, args):
    v = ex.deref(st, args[0])
    ex.assign_ref(st, args[0], none())
    return v


@summary(r'^(std::option::)?Option::<.*>::is_none$', 'Option::is_none')
def s_is_none(ex, st, fr, text, args):
    v = ex.deref(st, args[0])
    return S(1, int(v.v == 'None'))


@summary(r'^(std::option::)?Option::<.*>::is_some$', 'Option::is_some')
def s_is_some(ex, st, fr, text, args):
    v = ex.deref(st, args[0])
    return S(1, int(v.v == 'Some'))


@summary(r'^std::mem::take::<', 'mem::take: returns the value, leaves Default (empty Vec)')
def s_mem_take(ex, st, fr, text, args):
    v = ex.deref(st, args[0])
    if isinstance(v, Native) and v.tag == 'vec':
        ex.assign_ref(st, args[0], Native('vec', ((),)))
        return v
    raise Inconclusive('mem::take of %r' % (v,))


# ------------------------------------------------------------------------------------------------
# char / width

def len_utf8_term(c):
    """c: S(32). 1..4 as S(64)"""
    if c.conc():
        v = c.v
        return S(64, 1 if v < 0x80 else 2 if v < 0x800 else 3 if v < 0x10000 else 4)
    x = c.v
    if z3.is_bv(x):
        k = lambda n: z3.BitVecVal(n, 64)
        return S(64, z3.If(z3.ULT(x, 0x80), k(1), z3.If(z3.ULT(x, 0x800), k(2), z3.If(z3.ULT(x, 0x10000), k(3), k(4)))))
    k = z3.IntVal
    return S(64, z3.If(x < 0x80, k(1), z3.If(x < 0x800, k(2), z3.If(x < 0x10000, k(3), k(4)))))


@summary(r'char::methods::<impl char>::len_utf8$', 'char::len_utf8: 1 below U+80, 2 below U+800, 3 below U+10000, else 4')
def s_len_utf8(ex, st, fr, text, args):
    return len_utf8_term(args[0])


CONCRETE_WIDTH = None     # set by the validation driver to a python function cp -> None|int


# The display width is environment (unicode-width's tables are not part of any property): an
# uninterpreted function of the character with the documented range None | Some(0..=2).
WIDTH_NONE = z3.Function('width_is_none', z3.IntSort(), z3.BoolSort())
WIDTH_VAL = z3.Function('width_val', z3.IntSort(), z3.IntSort())


def width_value(c, default):
    """unwrap_or(default) of width(c) as S(64); c: S(32)"""
    if c.conc() and CONCRETE_WIDTH is not None:
        w = CONCRETE_WIDTH(c.v)
        return S(64, default if w is None else w)
    x = c.v if not isinstance(c.v, int) else z3.IntVal(c.v)
    return S(64, z3.If(WIDTH_NONE(x), z3.IntVal(default), WIDTH_VAL(x)))




def width_axiom(x):
    return z3.And(WIDTH_VAL(x) >= 0, WIDTH_VAL(x) <= 2)


@summary(r'as (unicode_width::)?UnicodeWidthChar>::width$', 'UnicodeWidthChar::width: uninterpreted function char -> None | Some(0..=2) (environment)')
def s_width(ex, st, fr, text, args):
    return Native('optwidth', (args[0],))


@summary(r'^(std::option::)?Option::<(u8|u16|u32|u64|usize|char|bool|&.*)>::unwrap_or$', 'Option::unwrap_or')
def s_unwrap_or(ex, st, fr, text, args):
    o, d = args
    if isinstance(o, Native) and o.tag == 'optwidth':
        if not d.conc():
            raise Inconclusive('symbolic default')
        return width_value(o.p[0], d.v)
    if isinstance(o, E):
        return d if o.v == 'None' else o.f[0]
    raise Inconclusive('unwrap_or on %r' % (o,))


@summary(r'^(std::ops::)?RangeInclusive::<.*>::new$', 'RangeInclusive::new(start, end)')
def s_ri_new(ex, st, fr, text, args):
    return A((args[0], args[1], FALSE))


@summary(r'^(std::ops::)?RangeInclusive::<.*>::start$', 'RangeInclusive::start: reference to the lower bound')
def s_ri_start(ex, st, fr, text, args):
    r = args[0]
    return Ref(r.fid, r.local, r.path + (('f', 0),))


@summary(r'^(std::ops::)?RangeInclusive::<.*>::end$', 'RangeInclusive::end: reference to the upper bound')
def s_ri_end(ex, st, fr, text, args):
    r = args[0]
    return Ref(r.fid, r.local, r.path + (('f', 1),))


@summary(r'^(std::ops::)?RangeInclusive::<.*>::contains::<', 'RangeInclusive::contains(x): start <= x && x <= end (unsigned / char order)')
def s_ri_contains(ex, st, fr, text, args):
    rg = ex.deref(st, args[0])
    x = ex.deref(st, args[1])
    lo, hi = rg.f[0], rg.f[1]
    a = ex.binop(st, 'Le', lo, x)
    b = ex.binop(st, 'Le', x, hi)
    return ex.binop(st, 'BitAnd', a, b)


@summary(r'^std::cmp::(max|min)::<u(8|16|32|64|size)>$', 'cmp::max / cmp::min on unsigned integers')
def s_minmax(ex, st, fr, text, args):
    a, b = args
    is_max = '::max::' in text
    if a.conc() and b.conc():
        return S(a.w, max(a.v, b.v) if is_max else min(a.v, b.v))
    x, y = a.v, b.v
    # std: max(a, b) = if b < a { a } else { b } ; min(a, b) = if b < a { b } else { a }
    lt = z3.ULT(bv(a.w, y), bv(a.w, x)) if (z3.is_bv(x) or z3.is_bv(y)) else (y < x)
    # fork instead of building an ite term: on every path the result is then one of the operands,
    # which keeps the later queries free of nested conditionals
    if is_max:
        return Fork([(lt, lambda s: a), (z3.Not(lt), lambda s: b)])
    return Fork([(lt, lambda s: b), (z3.Not(lt), lambda s: a)])


@summary(r'^<(u(8|16|32|64|size)|char) as Ord>::cmp$', 'Ord::cmp on unsigned integers: Less / Equal / Greater')
def s_cmp(ex, st, fr, text, args):
    a = ex.deref(st, args[0])
    b = ex.deref(st, args[1])
    if a.conc() and b.conc():
        return E('Less' if a.v < b.v else 'Equal' if a.v == b.v else 'Greater')
    x, y = a.v, b.v
    if z3.is_bv(x) or z3.is_bv(y):
        x, y = bv(a.w, x), bv(a.w, y)
        return Fork([(z3.ULT(x, y), lambda s: E('Less')), (x == y, lambda s: E('Equal')),
                     (z3.UGT(x, y), lambda s: E('Greater'))])
    return Fork([(x < y, lambda s: E('Less')), (x == y, lambda s: E('Equal')), (x > y, lambda s: E('Greater'))])


def arith_ref(op):
    def h(ex, st, fr, text, args):
        a = args[0]
        if isinstance(a, Ref):
            a = ex.deref(st, a)
        b = args[1]
        if isinstance(b, Ref):
            b = ex.deref(st, b)
        r = ex.binop(st, op + 'WithOverflow', a, b)
        val, ovf = r.f
        if ovf.conc():
            if ovf.v:
                return PanicResult('attempt to %s with overflow' % op.lower())
            return val
        return Fork([(z3.Not(ovf.v), lambda s: val),
                     (ovf.v, lambda s: PanicResult('attempt to %s with overflow' % op.lower()))])
    return h


TABLE.append((re.compile(r'^<&?u(8|16|32|64|size) as Add<&?u(8|16|32|64|size)>>::add$'), arith_ref('Add')))
TABLE.append((re.compile(r'^<&?u(8|16|32|64|size) as Sub<&?u(8|16|32|64|size)>>::sub$'), arith_ref('Sub')))
SUMMARY_DOC.append('<&u32 as Add<u32>>::add / Sub::sub: checked arithmetic (panics on overflow; overflow-checks=on as in the dev profile)')


# ------------------------------------------------------------------------------------------------
# closures / fn items

def call_value(ex, st, f, args):
    if isinstance(f, Ref):
        f = ex.deref(st, f)
    if not isinstance(f, FnP):
        raise Inconclusive('call of %r' % (f,))
    if f.kind == 'ctor':
        return E(f.name, args) if f.name in ex.discr else A(args)
    if f.kind == 'closure':
        return ('tailcall', f, list(args))
    if f.kind == 'fn':
        return ('tailcall', f, list(args))
    h = ex.find_summary(f.name)
    if h is None:
        raise Inconclusive('call of external fn item ' + f.name)
    return h(ex, st, None, f.name, list(args))


@summary(r' as Fn(Once|Mut)?<.*>>::call(_once|_mut)?$', 'Fn/FnMut/FnOnce::call*: calls the closure, fn item or constructor with the unpacked argument tuple')
def s_fn_call(ex, st, fr, text, args):
    f, tup = args
    return call_value(ex, st, f, list(tup.f))


# ------------------------------------------------------------------------------------------------
# Vec / slices (lengths are concrete per path; element contents may be symbolic)

def vec_of(ex, st, r):
    v = ex.deref(st, r)
    if isinstance(v, Ref):
        v = ex.deref(st, v)
    if not (isinstance(v, Native) and v.tag == 'vec'):
        raise Inconclusive('expected Vec, got %r' % (v,))
    return v


@summary(r'^(std::vec::)?Vec::<.*>::(new|with_capacity)$', 'Vec::new / with_capacity: empty vector')
def s_vec_new(ex, st, fr, text, args):
    return Native('vec', ((),))


@summary(r'^(std::vec::)?Vec::<.*>::len$', 'Vec::len')
def s_vec_len(ex, st, fr, text, args):
    return S(64, len(vec_of(ex, st, args[0]).p[0]))


@summary(r'^(std::vec::)?Vec::<.*>::is_empty$', 'Vec::is_empty')
def s_vec_is_empty(ex, st, fr, text, args):
    return S(1, int(len(vec_of(ex, st, args[0]).p[0]) == 0))


@summary(r'^(std::vec::)?Vec::<.*>::push$', 'Vec::push: appends')
def s_vec_push(ex, st, fr, text, args):
    v = vec_of(ex, st, args[0])
    ex.assign_ref(st, args[0], Native('vec', (v.p[0] + (args[1],),)))
    h = st.aux.get('on_push')
    if h is not None:
        h(ex, st, args[1])
    return UNIT


@summary(r'^<(std::vec::)?Vec<.*> as Deref>::deref$', 'Vec -> slice deref: same elements')
def s_vec_deref(ex, st, fr, text, args):
    return args[0]


@summary(r'^core::slice::<impl \[.*\]>::iter$', 'slice::iter: iterator of element references in order')
def s_slice_iter(ex, st, fr, text, args):
    r = args[0]
    v = ex.deref(st, r)
    if isinstance(v, Native) and v.tag == 'vec':
        return Native('sliceit', (r, 0, len(v.p[0])))
    if isinstance(v, A):
        return Native('sliceit', (r, 0, len(v.f)))
    raise Inconclusive('iter over %r' % (v,))


@summary(r'^core::slice::<impl \[.*\]>::last$', 'slice::last: reference to the last element or None')
def s_slice_last(ex, st, fr, text, args):
    r = args[0]
    v = ex.deref(st, r)
    n = len(v.p[0])
    if n == 0:
        return none()
    return some(Ref(r.fid, r.local, r.path + (('i', n - 1),)))


@summary(r'^<(std::ops::)?Range(Inclusive)?<.*> as IntoIterator>::into_iter$', 'Range / RangeInclusive::into_iter: identity')
def s_ri_into_iter(ex, st, fr, text, args):
    return args[0]


@summary(r'^<\[.*; \d+\] as IntoIterator>::into_iter$', 'array::into_iter: by-value iterator over the elements in order')
def s_array_into_iter(ex, st, fr, text, args):
    v = args[0]
    if not isinstance(v, A):
        raise Inconclusive('array into_iter on %r' % (v,))
    return Native('vecit', (tuple(v.f), 0))


@summary(r'^<(std::vec::)?Vec<.*> as IntoIterator>::into_iter$', 'Vec::into_iter: by-value iterator over the elements in order')
def s_vec_into_iter(ex, st, fr, text, args):
    v = args[0]
    return Native('vecit', (v.p[0], 0))


@summary(r'^<(std::vec::)?Vec<.*> as Extend<.*>>::extend::<', 'Vec::extend(iter): appends all remaining items of the iterator, in order')
def s_vec_extend(ex, st, fr, text, args):
    v = vec_of(ex, st, args[0])
    it = args[1]
    if isinstance(it, Native) and it.tag == 'vecit':
        elems, pos = it.p
        ex.assign_ref(st, args[0], Native('vec', (v.p[0] + tuple(elems[pos:]),)))
        return UNIT
    raise Inconclusive('extend from %r' % (it,))


@summary(r'^(std::convert::)?<?(char|u32) as (std::convert::)?(TryFrom|From)<(u32|char)>>::(try_from|from)$|^core::char::convert::<impl .*>::(try_from|from)$',
         'char::try_from(u32): Err for surrogates and values above 0x10FFFF; u32::from(char): identity')
def s_char_conv(ex, st, fr, text, args):
    a = args[0]
    if text.endswith('::from'):
        return a
    if a.conc():
        ok = a.v <= 0x10FFFF and not (0xD800 <= a.v <= 0xDFFF)
        return E('Ok', (a,)) if ok else E('Err', (UNIT,))
    x = a.v
    if z3.is_bv(x):
        good = z3.And(z3.ULE(x, 0x10FFFF), z3.Or(z3.ULT(x, 0xD800), z3.UGT(x, 0xDFFF)))
    else:
        good = z3.And(x <= 0x10FFFF, z3.Or(x < 0xD800, x > 0xDFFF))
    return Fork([(good, lambda s: E('Ok', (a,))), (z3.Not(good), lambda s: E('Err', (UNIT,)))])


# ------------------------------------------------------------------------------------------------
# higher-order: slice::binary_search_by (mirrors the probe sequence of the std implementation of
# the toolchain: size/2 steps without early exit, final comparison at `base`)

def call_closure(ex, st, clo, args):
    """explore a closure call; -> list of (kind, state, value)"""
    if isinstance(clo, Ref):
        clo = ex.deref(st, clo)
    if not isinstance(clo, FnP) or clo.fn is None:
        raise Inconclusive('closure call on %r' % (clo,))
    a = list(args)
    if clo.kind == 'closure':
        a = [ex.env_ref(st, clo)] + a
    return ex.call_fn(st, clo.fn, a)


@summary(r'^core::slice::<impl \[.*\]>::binary_search_by::<', 'slice::binary_search_by: the probe sequence of the std implementation (halving without early exit, final probe at base); the comparator is the real closure')
def s_binary_search_by(ex, st, fr, text, args):
    sl, clo = args
    arr = ex.deref(st, sl)
    if isinstance(arr, Native) and arr.tag == 'vec':
        n = len(arr.p[0])
    elif isinstance(arr, A):
        n = len(arr.f)
    else:
        raise Inconclusive('binary_search_by over %r' % (arr,))
    out = []
    if n == 0:
        return E('Err', (S(64, 0),))

    def elem(i):
        return Ref(sl.fid, sl.local, sl.path + (('i', i),))

    def go(s, size, base):
        if size > 1:
            half = size // 2
            mid = base + half
            for kind, s2, v in call_closure(ex, s, clo, [elem(mid)]):
                if kind != 'return':
                    out.append((s2, PanicResult(str(v))))
                    continue
                go(s2, size - half, base if v.v == 'Greater' else mid)
            return
        for kind, s2, v in call_closure(ex, s, clo, [elem(base)]):
            if kind != 'return':
                out.append((s2, PanicResult(str(v))))
            elif v.v == 'Equal':
                out.append((s2, E('Ok', (S(64, base),))))
            else:
                out.append((s2, E('Err', (S(64, base + (1 if v.v == 'Less' else 0)),))))
    go(st, n, 0)
    return Multi(out)


def _bsearch(ex, st, sl, compare):
    """probe sequence of slice::binary_search_by; compare(state, element ref) -> [(state, 'Less'|'Equal'|'Greater' | PanicResult)]"""
    arr = ex.deref(st, sl)
    if isinstance(arr, Native) and arr.tag == 'vec':
        n = len(arr.p[0])
    elif isinstance(arr, A):
        n = len(arr.f)
    else:
        raise Inconclusive('binary search over %r' % (arr,))
    out = []
    if n == 0:
        return E('Err', (S(64, 0),))

    def elem(i):
        return Ref(sl.fid, sl.local, sl.path + (('i', i),))

    def go(s, size, base):
        if size > 1:
            half = size // 2
            mid = base + half
            for s2, o in compare(s, elem(mid)):
                if isinstance(o, PanicResult):
                    out.append((s2, o))
                else:
                    go(s2, size - half, base if o == 'Greater' else mid)
            return
        for s2, o in compare(s, elem(base)):
            if isinstance(o, PanicResult):
                out.append((s2, o))
            elif o == 'Equal':
                out.append((s2, E('Ok', (S(64, base),))))
            else:
                out.append((s2, E('Err', (S(64, base + (1 if o == 'Less' else 0)),))))
    go(st, n, 0)
    return Multi(out)


@summary(r'^core::slice::<impl \[.*\]>::binary_search_by_key::<', 'slice::binary_search_by_key(b, f) = binary_search_by(|k| f(k).cmp(b)): same probe sequence; f is the real closure, the comparison of unsigned keys forks three ways')
def s_binary_search_by_key(ex, st, fr, text, args):
    sl, bref, clo = args
    b = ex.deref(st, bref) if isinstance(bref, Ref) else bref

    def compare(s, eref):
        res = []
        for kind, s2, v in call_closure(ex, s, clo, [eref]):
            if kind != 'return':
                res.append((s2, PanicResult(str(v))))
                continue
            if not isinstance(v, S) or not isinstance(b, S):
                raise Inconclusive('binary_search_by_key on non-scalar keys')
            if v.conc() and b.conc():
                res.append((s2, 'Less' if v.v < b.v else 'Equal' if v.v == b.v else 'Greater'))
                continue
            for cond, o in ((v.v < b.v, 'Less'), (v.v == b.v, 'Equal'), (v.v > b.v, 'Greater')):
                ok, ms = ex.sat_under(s2, cond)
                if not ok:
                    continue
                s3 = s2.fork()
                s3.pc.append(cond)
                s3.models = ms
                res.append((s3, o))
        return res
    return _bsearch(ex, st, sl, compare)


@summary(r'^core::slice::<impl \[.*\]>::get::<usize>$', 'slice::get(i): Some(&s[i]) if i < len else None (concrete index)')
def s_slice_get(ex, st, fr, text, args):
    sl, i = args
    arr = ex.deref(st, sl)
    if not isinstance(i, S) or not i.conc():
        raise Inconclusive('slice::get with a symbolic index')
    n = len(arr.p[0]) if isinstance(arr, Native) and arr.tag == 'vec' else len(arr.f) if isinstance(arr, A) else None
    if n is None:
        raise Inconclusive('slice::get over %r' % (arr,))
    if i.v < n:
        return E('Some', (Ref(sl.fid, sl.local, sl.path + (('i', i.v),)),))
    return E('None')


@summary(r'^core::num::<impl (u8|u16|u32|u64|usize)>::checked_sub$', 'uN::checked_sub (concrete operands)')
def s_checked_sub(ex, st, fr, text, args):
    a, b = args
    if not (a.conc() and b.conc()):
        raise Inconclusive('checked_sub on symbolic operands')
    return E('Some', (S(a.w, a.v - b.v),)) if a.v >= b.v else E('None')


@summary(r'^(core::hint::|std::hint::)?assert_unchecked$', 'hint::assert_unchecked(c): c must hold on every path that reaches it (undefined behaviour otherwise): a feasible violation ends the run as inconclusive')
def s_assert_unchecked(ex, st, fr, text, args):
    c = args[0]
    if c.conc():
        if not c.v:
            raise Inconclusive('assert_unchecked(false) reached: undefined behaviour')
        return UNIT
    ok, _ = ex.sat_under(st, z3.Not(zbool(c.v)))
    if ok:
        raise Inconclusive('assert_unchecked may be violated: undefined behaviour')
    return UNIT


@summary(r'^(std::result::)?Result::<.*>::(unwrap|expect)$', 'Result::unwrap / expect: the Ok value, panic on Err')
def s_result_unwrap(ex, st, fr, text, args):
    v = args[0]
    if isinstance(v, Ref):
        v = ex.deref(st, v)
    if not isinstance(v, E):
        raise Inconclusive('unwrap on %r' % (v,))
    if v.v == 'Ok':
        return v.f[0]
    return PanicResult('called `Result::unwrap()` on an `Err` value')


@summary(r'^(std::option::)?Option::<.*>::(unwrap|expect)$', 'Option::unwrap / expect: the Some value, panic on None')
def s_option_unwrap(ex, st, fr, text, args):
    v = args[0]
    if isinstance(v, Native):
        raise Inconclusive('unwrap on %r' % (v,))
    if not isinstance(v, E):
        raise Inconclusive('unwrap on %r' % (v,))
    if v.v == 'Some':
        return v.f[0]
    return PanicResult('called `Option::unwrap()` on a `None` value')


@summary(r'^(std::result::)?Result::<.*>::is_ok$', 'Result::is_ok')
def s_is_ok(ex, st, fr, text, args):
    v = ex.deref(st, args[0])
    return S(1, int(v.v == 'Ok'))


@summary(r'^(std::result::)?Result::<.*>::is_err$', 'Result::is_err')
def s_is_err(ex, st, fr, text, args):
    v = ex.deref(st, args[0])
    return S(1, int(v.v == 'Err'))


@summary(r'^<(std::vec::)?Vec<.*> as (std::default::)?Default>::default$', 'Default for Vec: empty')
def s_default_vec(ex, st, fr, text, args):
    return Native('vec', ((),))


@summary(r'^<(u8|u16|u32|u64|usize|bool|char) as (std::default::)?Default>::default$', 'Default for integers / bool / char: zero')
def s_default_int(ex, st, fr, text, args):
    t = re.match(r'^<(\w+) as', text).group(1)
    w = {'u8': 8, 'u16': 16, 'u32': 32, 'u64': 64, 'usize': 64, 'bool': 1, 'char': 32}[t]
    return S(w, 0)


@summary(r'^<S as (std::default::)?Default>::default$', 'Default::default of the generic user state: dispatched to the harness state type')
def s_default_generic(ex, st, fr, text, args):
    f = ex.prog.find('St', 'default')
    if f is None:
        raise Inconclusive('user state Default impl not found')
    return ('tailcall', FnP(f.name, 'fn', f), [])


# ------------------------------------------------------------------------------------------------
# Option combinators taking closures / fn items (higher-order: the callee is explored by the executor)

def _call_any(ex, st, f, args):
    """call a closure / fn item value; -> list of (state, value|PanicResult)"""
    if isinstance(f, Ref):
        f = ex.deref(st, f)
    if not isinstance(f, FnP):
        raise Inconclusive('call of %r' % (f,))
    if f.kind == 'ctor':
        return [(st, E(f.name, args) if f.name in ex.discr else A(args))]
    if f.kind == 'ext':
        h = ex.find_summary(f.name)
        if h is None:
            raise Inconclusive('call of external fn item ' + f.name)
        r = h(ex, st, None, f.name, list(args))
        if isinstance(r, (Fork, Multi)) or (isinstance(r, tuple) and r and r[0] == 'tailcall'):
            raise Inconclusive('nested forking summary ' + f.name)
        return [(st, r)]
    a = list(args)
    if f.kind == 'closure':
        a = [ex.env_ref(st, f)] + a
    out = []
    for kind, s2, v in ex.call_fn(st, f.fn, a):
        out.append((s2, v if kind == 'return' else PanicResult(str(v))))
    return out


def _split_bool(ex, results, on_true, on_false):
    """results: (state, S bool); fork symbolic booleans with the solver"""
    out = []
    for s2, v in results:
        if isinstance(v, PanicResult):
            out.append((s2, v))
        elif v.conc():
            out.append((s2, on_true(s2) if v.v else on_false(s2)))
        else:
            okt, mt = ex.sat_under(s2, v.v)
            okf, mf = ex.sat_under(s2, z3.Not(v.v))
            if okt and okf:
                s3 = s2.fork()
                s3.pc.append(z3.Not(v.v))
                s3.models = mf
                out.append((s3, on_false(s3)))
            if okt:
                s2.pc.append(v.v)
                s2.models = mt
                out.append((s2, on_true(s2)))
            elif okf:
                s2.pc.append(z3.Not(v.v))
                s2.models = mf
                out.append((s2, on_false(s2)))
    return out


@summary(r'^(std::option::)?Option::<.*>::filter::<', 'Option::filter(pred): Some(x) if pred(&x) else None')
def s_opt_filter(ex, st, fr, text, args):
    o, f = args
    if o.v == 'None':
        return none()
    k = '__tmp%d' % st.nfid
    st.nfid += 1
    st.root()[k] = o.f[0]
    res = _call_any(ex, st, f, [Ref(0, k, ())])
    return Multi(_split_bool(ex, res, lambda s: o, lambda s: none()))


@summary(r'^(std::result::)?Result::<.*>::map_or::<', 'Result::map_or(default, f): f(v) for Ok(v), default for Err')
def s_res_map_or(ex, st, fr, text, args):
    o, d, f = args
    if not isinstance(o, E):
        raise Inconclusive('map_or on %r' % (o,))
    if o.v == 'Err':
        return d
    return Multi(_call_any(ex, st, f, [o.f[0]]))


@summary(r'^(std::option::)?Option::<.*>::map_or::<', 'Option::map_or(default, f)')
def s_opt_map_or(ex, st, fr, text, args):
    o, d, f = args
    if o.v == 'None':
        return d
    return Multi(_call_any(ex, st, f, [o.f[0]]))


@summary(r'^(std::option::)?Option::<.*>::map::<', 'Option::map(f)')
def s_opt_map(ex, st, fr, text, args):
    o, f = args
    if o.v == 'None':
        return none()
    return Multi([(s2, v if isinstance(v, PanicResult) else some(v)) for s2, v in _call_any(ex, st, f, [o.f[0]])])


@summary(r'^(std::option::)?Option::<.*>::get_or_insert_with::<', 'Option::get_or_insert_with(f): fills a None with f(), returns a reference to the content')
def s_opt_get_or_insert_with(ex, st, fr, text, args):
    r, f = args
    o = ex.deref(st, r)
    if not isinstance(o, E):
        raise Inconclusive('get_or_insert_with on %r' % (o,))
    inner = Ref(r.fid, r.local, r.path + (('f', 0),))
    if o.v == 'Some':
        return inner
    out = []
    for s2, v in _call_any(ex, st, f, []):
        if isinstance(v, PanicResult):
            out.append((s2, v))
            continue
        ex.assign_ref(s2, r, some(v))
        out.append((s2, inner))
    return Multi(out)


@summary(r'^(std::option::)?Option::<.*>::and_then::<', 'Option::and_then(f)')
def s_opt_and_then(ex, st, fr, text, args):
    o, f = args
    if o.v == 'None':
        return none()
    return Multi(_call_any(ex, st, f, [o.f[0]]))


@summary(r'^core::slice::<impl \[.*\]>::partition_point::<', 'slice::partition_point(pred) = binary_search_by(|x| if pred(x) { Less } else { Greater }).unwrap_or_else(|i| i): same probe sequence; pred is the real closure')
def s_partition_point(ex, st, fr, text, args):
    sl, clo = args

    def compare(s, eref):
        res = []
        for kind, s2, v in call_closure(ex, s, clo, [eref]):
            if kind != 'return':
                res.append((s2, PanicResult(str(v))))
                continue
            if v.conc():
                res.append((s2, 'Less' if v.v else 'Greater'))
                continue
            b = zbool(v.v)
            for cond, o in ((b, 'Less'), (z3.Not(b), 'Greater')):
                ok, ms = ex.sat_under(s2, cond)
                if ok:
                    s3 = s2.fork()
                    s3.pc.append(cond)
                    s3.models = ms
                    res.append((s3, o))
        return res
    r = _bsearch(ex, st, sl, compare)
    if isinstance(r, Multi):
        return Multi([(s2, v if isinstance(v, PanicResult) else v.f[0]) for s2, v in r.results])
    return r.f[0]


# ------------------------------------------------------------------------------------------------
# atomics in statics (hidden global state): the contents live in the explored state (st.aux['atomics']), keyed by the
# place of the atomic or, for arrays of atomics, of the array (a z3 array Int -> Int, so the index may be symbolic).
# One thread: load / store / swap / fetch_add with any ordering are plain reads and writes.

def _atomic_loc(ex, st, r):
    """-> (key, index term or None, initial value getter)"""
    if not isinstance(r, Ref):
        raise Inconclusive('atomic access through %r' % (r,))
    if r.path and r.path[-1][0] in ('isym', 'i'):
        arr_ref = Ref(r.fid, r.local, r.path[:-1])
        arr = ex.deref(st, arr_ref)
        if isinstance(arr, A) and arr.f and all(isinstance(x, Native) and x.tag == 'atomic' for x in arr.f):
            idx = r.path[-1][1]
            idx = z3.IntVal(idx) if isinstance(idx, int) else idx

            def init():
                vals = [x.p[0] for x in arr.f]
                if not all(v.conc() for v in vals):
                    raise Inconclusive('array of atomics with symbolic initial values')
                a0 = z3.K(z3.IntSort(), z3.IntVal(vals[0].v))
                for k, v in enumerate(vals):
                    if v.v != vals[0].v:
                        a0 = z3.Store(a0, k, v.v)
                return a0
            return ('arr', r.fid, r.local, r.path[:-1]), idx, init, arr.f[0].p[0].w
    v = ex.deref(st, r)
    if not (isinstance(v, Native) and v.tag == 'atomic'):
        raise Inconclusive('atomic access to %r' % (v,))
    return ('one', r.fid, r.local, r.path), None, (lambda: v.p[0]), v.p[0].w


def _atomic_get(ex, st, r):
    ex.hidden_state = True
    key, idx, init, w = _atomic_loc(ex, st, r)
    mem = st.aux.get('atomics', {})
    cur = mem[key] if key in mem else init()
    if idx is None:
        return cur
    v = z3.simplify(z3.Select(cur, idx))
    return S(w, v.as_long() if z3.is_int_value(v) else v)


def _atomic_set(ex, st, r, val):
    ex.hidden_state = True
    key, idx, init, w = _atomic_loc(ex, st, r)
    mem = dict(st.aux.get('atomics', {}))
    if idx is None:
        mem[key] = val
    else:
        cur = mem[key] if key in mem else init()
        mem[key] = z3.Store(cur, idx, val.v if not isinstance(val.v, int) else z3.IntVal(val.v))
    st.aux['atomics'] = mem


@summary(r'^(std::sync::atomic::|core::sync::atomic::)?Atomic(::<.*>|U8|U16|U32|U64|Usize|Bool)?::new$', 'Atomic*::new')
def s_atomic_new(ex, st, fr, text, args):
    return Native('atomic', (args[0],))


@summary(r'^(std::sync::atomic::|core::sync::atomic::)?Atomic(::<.*>|U8|U16|U32|U64|Usize|Bool)?::load$', 'Atomic*::load (single thread: the current contents)')
def s_atomic_load(ex, st, fr, text, args):
    return _atomic_get(ex, st, args[0])


@summary(r'^(std::sync::atomic::|core::sync::atomic::)?Atomic(::<.*>|U8|U16|U32|U64|Usize|Bool)?::store$', 'Atomic*::store (single thread)')
def s_atomic_store(ex, st, fr, text, args):
    _atomic_set(ex, st, args[0], args[1])
    return UNIT


@summary(r'^(std::sync::atomic::|core::sync::atomic::)?Atomic(::<.*>|U8|U16|U32|U64|Usize|Bool)?::swap$', 'Atomic*::swap (single thread)')
def s_atomic_swap(ex, st, fr, text, args):
    old = _atomic_get(ex, st, args[0])
    _atomic_set(ex, st, args[0], args[1])
    return old


@summary(r'^(std|core)::mem::needs_drop::<', 'mem::needs_drop::<T>: false for types built from scalars, tuples and cells; true when T names an owning container')
def s_needs_drop(ex, st, fr, text, args):
    t = text[text.index('::<') + 3:]
    return S(1, 1 if re.search(r'\b(Vec|String|Box|Rc|Arc|HashMap|BTreeMap)\b', t) else 0)


# ------------------------------------------------------------------------------------------------
# explicit panics: panic!, unreachable!, unimplemented!, todo!, assert! with a message

@summary(r"^(core::fmt::|std::fmt::)?Arguments::<.*>::(from_str_nonconst|from_str|new_const|new_v1|new_v1_formatted|new)(::<.*>)?$", 'fmt::Arguments constructors: an opaque message (formatting is not the subject)')
def s_fmt_arguments(ex, st, fr, text, args):
    msg = ''
    for a_ in args:
        if isinstance(a_, Native) and a_.tag == 'str':
            msg = a_.p[0]
            break
    return Native('fmtargs', (msg,))


@summary(r'^(core|std)::(panicking|rt)::(panic|panic_fmt|panic_explicit|panic_display|panic_str|panic_nounwind|unreachable_display|begin_panic|panic_const::.*)(::<.*>)?$', 'panic entry points: the path ends in a panic')
def s_panicking(ex, st, fr, text, args):
    msg = text.split('::')[-1]
    for a_ in args:
        if isinstance(a_, Native) and a_.tag in ('fmtargs', 'str') and a_.p and a_.p[0]:
            msg = str(a_.p[0])
            break
    return PanicResult(msg[:200])


# ------------------------------------------------------------------------------------------------
# Rc: the pointee lives in the root frame of the explored state; clones of the Rc share it

@summary(r'^(std::rc::|alloc::rc::)?Rc::<.*>::new$', 'Rc::new: the value is placed in the state, the Rc is a handle to it')
def s_rc_new(ex, st, fr, text, args):
    n = st.aux.get('rc_count', 0)
    st.aux['rc_count'] = n + 1
    slot = '__rc%d' % n
    st.root()[slot] = args[0]
    return Native('rc', (slot,))


@summary(r'^<(std::rc::|alloc::rc::)?Rc<.*> as (std::clone::)?Clone>::clone$', 'Rc::clone: another handle to the same value (shared)')
def s_rc_clone(ex, st, fr, text, args):
    v = ex.deref(st, args[0])
    if not (isinstance(v, Native) and v.tag == 'rc'):
        raise Inconclusive('Rc::clone on %r' % (v,))
    ex.hidden_state = True        # from here on two owners can reach the same (possibly interior-mutable) value
    return v


@summary(r'^<(std::rc::|alloc::rc::)?Rc<.*> as (std::ops::)?Deref>::deref$', 'Rc::deref: reference to the shared value')
def s_rc_deref(ex, st, fr, text, args):
    v = ex.deref(st, args[0])
    if not (isinstance(v, Native) and v.tag == 'rc'):
        raise Inconclusive('Rc::deref on %r' % (v,))
    return Ref(0, v.p[0], ())


# ------------------------------------------------------------------------------------------------
# thread-local Cells (hidden global state): the cell lives in the root frame of the explored state, so it is shared
# by everything that runs in that state (lexers, clones, successive calls) exactly like a thread-local

@summary(r'^(std::thread::)?LocalKey::<.*>::new$', 'thread_local!: a key identified by the constant that defines it')
def s_tls_new(ex, st, fr, text, args):
    owner = fr.fn if fr is not None else None
    return Native('tlskey', (owner.name if owner else '?', owner.text_line if owner else 0))


@summary(r'^(std::cell::)?Cell::<.*>::new$', 'Cell::new')
def s_cell_new(ex, st, fr, text, args):
    return A((args[0],))


@summary(r'^(std::cell::)?Cell::<.*>::get$', 'Cell::get: copy of the content')
def s_cell_get(ex, st, fr, text, args):
    return ex.deref(st, args[0]).f[0]


@summary(r'^(std::cell::)?Cell::<.*>::set$', 'Cell::set')
def s_cell_set(ex, st, fr, text, args):
    ex.assign_ref(st, args[0], A((args[1],)))
    return UNIT


@summary(r'^(std::cell::)?Cell::<.*>::replace$', 'Cell::replace')
def s_cell_replace(ex, st, fr, text, args):
    old = ex.deref(st, args[0]).f[0]
    ex.assign_ref(st, args[0], A((args[1],)))
    return old


@summary(r'^(std::thread::)?LocalKey::<.*>::with::<', 'LocalKey::with(f): f(&cell) on the per-state cell, initialised from the const initialiser of the thread_local! (lazy initialisers are not modelled)')
def s_tls_with(ex, st, fr, text, args):
    ex.hidden_state = True
    key = args[0]
    if isinstance(key, Ref):
        key = ex.deref(st, key)
    if not (isinstance(key, Native) and key.tag == 'tlskey'):
        raise Inconclusive('LocalKey::with on %r' % (key,))
    slot = '__tls_%s_%d' % key.p
    if slot not in st.root():
        inits = [f for f in ex.prog.fns if f.kind == 'const' and f.name.endswith('__RUST_STD_INTERNAL_INIT')]
        if not inits:
            raise Inconclusive('thread_local! with a lazy initialiser is not modelled')
        near = min(inits, key=lambda f: abs(f.text_line - key.p[1]))
        st.root()[slot] = ex.eval_const_fn(near, near.name)
    return Multi(_call_any(ex, st, args[1], [Ref(0, slot, ())]))
