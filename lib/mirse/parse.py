"""Parser for rustc's `-Zunpretty=mir` text dumps.

Produces, per function / const / promoted body, a dict of basic blocks whose statements and
terminators are pre-parsed into small tuples, so that the symbolic executor (exec.py) does no
string work on the hot path.  Anything this parser does not understand is kept as
('unsupported', text): executing it makes the run *inconclusive* (never a pass, never a violation).
"""
import re


class ParseError(Exception):
    pass


# ------------------------------------------------------------------------------------------------
# bracket helpers

OPEN = {'(': ')', '[': ']', '{': '}'}
CLOSE = {')', ']', '}'}


def match_bracket(s, i):
    """s[i] is one of ([{ ; return index of its partner.  Aware of char/str literals.
    '<' '>' are deliberately not brackets (they occur as '->' and comparison-free in MIR, but
    generic args never contain unbalanced ()[]{} so ignoring them is safe)."""
    depth = 0
    n = len(s)
    j = i
    while j < n:
        ch = s[j]
        if ch == '"':
            j = skip_string(s, j)
            continue
        if ch == "'":
            k = skip_char_lit(s, j)
            if k is not None:
                j = k
                continue
        if ch in OPEN:
            depth += 1
        elif ch in CLOSE:
            depth -= 1
            if depth == 0:
                return j
        j += 1
    raise ParseError('unbalanced: ' + s[i:i + 80])


def skip_string(s, j):
    """s[j] == '"' -> index after the closing quote"""
    j += 1
    while j < len(s):
        if s[j] == '\\':
            j += 2
            continue
        if s[j] == '"':
            return j + 1
        j += 1
    raise ParseError('unterminated string')


_CHAR_LIT = re.compile(r"'(\\u\{[0-9a-fA-F]+\}|\\x[0-9a-fA-F]{2}|\\.|[^'\\])'")


def skip_char_lit(s, j):
    """s[j] == "'" : if a char literal starts here return index after it, else None (lifetime)."""
    m = _CHAR_LIT.match(s, j)
    if m:
        return m.end()
    return None


def split_top(s, sep=','):
    """split at top-level `sep` (outside ()[]{}<> and literals). '<' '>' handled heuristically:
    '->' and '=>' are skipped."""
    out = []
    depth = 0
    angle = 0
    cur = []
    j = 0
    n = len(s)
    while j < n:
        ch = s[j]
        if ch == '"':
            k = skip_string(s, j)
            cur.append(s[j:k])
            j = k
            continue
        if ch == "'":
            k = skip_char_lit(s, j)
            if k is not None:
                cur.append(s[j:k])
                j = k
                continue
        if ch in OPEN:
            depth += 1
        elif ch in CLOSE:
            depth -= 1
        elif ch == '<':
            angle += 1
        elif ch == '>':
            if j > 0 and s[j - 1] in '-=':
                pass
            elif angle > 0:
                angle -= 1
        if ch == sep and depth == 0 and angle == 0:
            out.append(''.join(cur).strip())
            cur = []
        else:
            cur.append(ch)
        j += 1
    last = ''.join(cur).strip()
    if last:
        out.append(last)
    return out


def strip_generics(path):
    """remove every `::<...>` / `<...>` generic argument list from a path, keeping `<T as Trait>`
    qualified-self prefixes intact is NOT attempted: the result is only used as a lookup key."""
    out = []
    depth = 0
    j = 0
    n = len(path)
    while j < n:
        ch = path[j]
        if ch == '<':
            depth += 1
        elif ch == '>' and not (j > 0 and path[j - 1] == '-'):
            depth -= 1
            j += 1
            continue
        if depth == 0:
            out.append(ch)
        j += 1
    s = ''.join(out)
    s = s.replace('::::', '::')
    while s.endswith('::'):
        s = s[:-2]
    return s


# ------------------------------------------------------------------------------------------------
# types (only what the executor needs: integer widths)

INT_W = {'u8': 8, 'u16': 16, 'u32': 32, 'u64': 64, 'u128': 128, 'usize': 64,
         'i8': 8, 'i16': 16, 'i32': 32, 'i64': 64, 'i128': 128, 'isize': 64, 'char': 32, 'bool': 1}


def int_type(t):
    t = t.strip()
    if t in INT_W:
        return (INT_W[t], t[0] == 'i')
    return None


# ------------------------------------------------------------------------------------------------
# places

def parse_place(s):
    """-> (local:int, projs:tuple).  projs: ('deref',) ('f', n) ('dc', name) ('idx', local)
    ('cidx', n, from_end)"""
    s = s.strip()
    pl, rest = _place_prefix(s)
    if rest.strip():
        raise ParseError('trailing in place: %r of %r' % (rest, s))
    return pl


def _place_prefix(s):
    """parse one place at the start of s; return (place, remaining text)"""
    if s.startswith('_'):
        m = re.match(r'_(\d+)', s)
        if not m:
            raise ParseError('place? ' + s)
        base = (int(m.group(1)), ())
        rest = s[m.end():]
    elif s.startswith('('):
        j = match_bracket(s, 0)
        inner = s[1:j].strip()
        rest = s[j + 1:]
        if inner.startswith('*'):
            r, p = parse_place(inner[1:])
            base = (r, p + (('deref',),))
        else:
            (r, p), tail = _place_prefix(inner)
            tail = tail.strip()
            m = re.match(r'\.(\d+):', tail)
            if m:
                base = (r, p + (('f', int(m.group(1))),))
            else:
                m = re.match(r'as ([\w]+)$', tail)
                if m:
                    base = (r, p + (('dc', m.group(1)),))
                else:
                    m = re.match(r'as variant#(\d+)$', tail)
                    if m:
                        base = (r, p + (('dc', int(m.group(1))),))
                    else:
                        raise ParseError('place tail? %r in %r' % (tail, s))
    else:
        raise ParseError('place? ' + s)
    # index projections
    while rest.startswith('['):
        j = match_bracket(rest, 0)
        inner = rest[1:j].strip()
        m = re.fullmatch(r'_(\d+)', inner)
        if m:
            base = (base[0], base[1] + (('idx', int(m.group(1))),))
        else:
            m = re.fullmatch(r'(-?)(\d+) of (\d+)', inner)
            if m:
                base = (base[0], base[1] + (('cidx', int(m.group(2)), bool(m.group(1))),))
            else:
                raise ParseError('index? ' + rest)
        rest = rest[j + 1:]
    return base, rest


# ------------------------------------------------------------------------------------------------
# constants and operands

_INT_CONST = re.compile(r'(-?\d+)_(u8|u16|u32|u64|u128|usize|i8|i16|i32|i64|i128|isize)$')


def unescape_char(body):
    if body.startswith('\\u{'):
        return int(body[3:-1], 16)
    if body.startswith('\\x'):
        return int(body[2:], 16)
    if body.startswith('\\'):
        return {'n': 10, 't': 9, 'r': 13, '0': 0, '\\': 92, "'": 39, '"': 34}[body[1]]
    return ord(body)


def parse_const(c):
    c = c.strip()
    if c == 'true':
        return ('bool', 1)
    if c == 'false':
        return ('bool', 0)
    if c == '()':
        return ('unit',)
    m = _INT_CONST.match(c)
    if m:
        w, signed = int_type(m.group(2))
        return ('int', w, int(m.group(1)) & ((1 << w) - 1), signed)
    if c.startswith("'"):
        m = _CHAR_LIT.fullmatch(c)
        if m:
            return ('int', 32, unescape_char(m.group(1)), False)
    if c.startswith('"'):
        return ('str', c)
    if c.startswith('ZeroSized: '):
        return ('zst', c[len('ZeroSized: '):].strip())
    m = re.search(r'::promoted\[(\d+)\]$', c)
    if m:
        return ('promoted', int(m.group(1)))
    m = re.match(r'^\{(alloc\d+)(\+0x[0-9a-f]+)?: .*\}$', c)
    if m and not m.group(2):
        return ('alloc', m.group(1))
    if re.match(r'^(char::MAX|core::char::MAX|std::char::MAX|std::char::methods::<impl char>::MAX|core::char::methods::<impl char>::MAX)$', c):
        return ('int', 32, 0x10FFFF, False)
    if re.match(r'^(u32::MAX|core::u32::MAX)$', c):
        return ('int', 32, 0xFFFFFFFF, False)
    if re.match(r'^(usize::MAX)$', c):
        return ('int', 64, (1 << 64) - 1, False)
    # named constant or fn item (resolved at run time)
    return ('named', c)


def parse_operand(s):
    s = s.strip()
    if s.startswith('no_retag '):
        s = s[9:].strip()
    if s.startswith('copy '):
        return ('copy', parse_place(s[5:]))
    if s.startswith('move '):
        return ('move', parse_place(s[5:]))
    if s.startswith('const '):
        return ('const', parse_const(s[6:]))
    # bare function item / unit struct used as operand
    return ('fnitem', s)


BINOPS = {'Eq', 'Ne', 'Lt', 'Le', 'Gt', 'Ge', 'Add', 'Sub', 'Mul', 'Div', 'Rem', 'BitAnd', 'BitOr',
          'BitXor', 'Shl', 'Shr', 'AddWithOverflow', 'SubWithOverflow', 'MulWithOverflow',
          'AddUnchecked', 'SubUnchecked', 'MulUnchecked', 'ShlUnchecked', 'ShrUnchecked', 'Cmp',
          'Offset'}
UNOPS = {'Not', 'Neg', 'PtrMetadata'}


def parse_rvalue(s):
    s = s.strip()
    if s.startswith('no_retag '):
        s = s[9:].strip()
    m = re.match(r'(\w+)\(', s)
    if m and s.endswith(')') and match_bracket(s, m.end() - 1) == len(s) - 1:
        name = m.group(1)
        inner = s[m.end():-1]
        if name in BINOPS:
            a, b = split_top(inner)
            return ('bin', name, parse_operand(a), parse_operand(b))
        if name in UNOPS:
            return ('un', name, parse_operand(inner))
        if name == 'discriminant':
            return ('discr', parse_place(inner))
        if name == 'Len':
            return ('len', parse_place(inner))
        if name == 'CopyForDeref':
            return ('use', ('copy', parse_place(inner)))
    if s.startswith('&raw '):
        rest = s[5:].strip()
        rest = re.sub(r'^(const|mut)\s+', '', rest)
        rest = re.sub(r'^\(fake\)\s*', '', rest)
        return ('ref', parse_place(rest))
    if s.startswith('&'):
        rest = s[1:].strip()
        rest = re.sub(r"^'\w+\s+", '', rest)
        if rest.startswith('mut '):
            rest = rest[4:]
        rest = re.sub(r'^(fake shallow|fake|two_phase)\s+', '', rest.strip())
        return ('ref', parse_place(rest))
    # cast:  OPERAND as TYPE (Kind)
    m = re.match(r'^(.*) as (.*) \((\w+(?:\(.*\))?)\)$', s)
    if m and (s.startswith(('copy ', 'move ', 'const ')) or not s.startswith('(')):
        op_text = m.group(1)
        # the operand itself may contain ' as ' inside a place "(_1 as Some)"; ensure balanced
        try:
            op = parse_operand(op_text)
            return ('cast', op, m.group(2).strip(), m.group(3))
        except ParseError:
            pass
    if s.startswith(('copy ', 'move ', 'const ')):
        return ('use', parse_operand(s))
    if s.startswith('['):
        j = match_bracket(s, 0)
        if j == len(s) - 1:
            inner = s[1:-1]
            parts = split_top(inner, ';')
            if len(parts) == 2:
                return ('repeat', parse_operand(parts[0]), parts[1].strip())
            return ('array', tuple(parse_operand(x) for x in split_top(inner)))
    if s.startswith('('):
        j = match_bracket(s, 0)
        if j == len(s) - 1:
            inner = s[1:-1].strip()
            if inner == '':
                return ('use', ('const', ('unit',)))
            return ('tuple', tuple(parse_operand(x) for x in split_top(inner)))
    if s.startswith('{closure@') or s.startswith('{coroutine@'):
        j = match_bracket(s, 0)
        rest = s[j + 1:].strip()
        caps = []
        if rest.startswith('{') and rest.endswith('}'):
            inner = rest[1:-1].strip()
            if inner:
                for f in split_top(inner):
                    k = f.index(':')
                    caps.append((f[:k].strip(), parse_operand(f[k + 1:])))
        return ('closure', s[:j + 1], tuple(caps))
    # struct aggregate:  Path { f: op, ... }
    if s.endswith('}'):
        i = s.find(' {')
        if i > 0 and match_bracket(s, i + 1) == len(s) - 1:
            path = s[:i]
            inner = s[i + 2:-1].strip()
            fields = []
            if inner:
                for f in split_top(inner):
                    k = f.index(':')
                    fields.append((f[:k].strip(), parse_operand(f[k + 1:])))
            return ('struct', path, tuple(fields))
    # enum tuple-variant / tuple-struct aggregate:  Path::Variant(ops)
    if s.endswith(')'):
        # find the '(' that matches the final ')'
        depth = 0
        i = len(s) - 1
        j = i
        while j >= 0:
            if s[j] == ')':
                depth += 1
            elif s[j] == '(':
                depth -= 1
                if depth == 0:
                    break
            j -= 1
        path = s[:j]
        inner = s[j + 1:-1]
        return ('variant', path, tuple(parse_operand(x) for x in split_top(inner)))
    # unit variant / unit struct / fn item
    return ('variant', s, ())


# ------------------------------------------------------------------------------------------------
# statements and terminators

_CALL_TAIL = re.compile(r'\) -> (\[return: bb(\d+), unwind[^\]]*\]|unwind [a-z() ]+);$')


def parse_stmt(l):
    if l.startswith(('StorageLive', 'StorageDead', 'FakeRead', 'PlaceMention', 'Retag', 'nop',
                     'AscribeUserType', 'Coverage', 'ConstEvalCounter', 'BackwardIncompatibleDropHint')):
        return None
    if l == 'return;':
        return ('return',)
    if l == 'unreachable;':
        return ('unreachable',)
    if l in ('resume;', 'abort;') or l.startswith('terminate'):
        return ('resume',)
    m = re.fullmatch(r'goto -> bb(\d+);', l)
    if m:
        return ('goto', int(m.group(1)))
    m = re.fullmatch(r'drop\((.*)\) -> \[return: bb(\d+), unwind.*\];', l)
    if m:
        return ('goto', int(m.group(2)))
    m = re.fullmatch(r'falseEdge -> \[real: bb(\d+), imaginary: bb\d+\];', l)
    if m:
        return ('goto', int(m.group(1)))
    m = re.fullmatch(r'falseUnwind -> \[real: bb(\d+), .*\];', l)
    if m:
        return ('goto', int(m.group(1)))
    if l.startswith('switchInt('):
        j = match_bracket(l, len('switchInt'))
        op = parse_operand(l[len('switchInt('):j])
        rest = l[j + 1:].strip()
        m = re.fullmatch(r'-> \[(.*)\];', rest)
        targets = []
        otherwise = None
        for t in split_top(m.group(1)):
            k, b = t.rsplit(':', 1)
            b = int(b.strip()[2:])
            k = k.strip()
            if k == 'otherwise':
                otherwise = b
            else:
                targets.append((int(k), b))
        return ('switch', op, tuple(targets), otherwise)
    if l.startswith('assert('):
        j = match_bracket(l, len('assert'))
        inner = split_top(l[len('assert('):j])
        cexpr = inner[0].strip()
        neg = cexpr.startswith('!')
        if neg:
            cexpr = cexpr[1:]
        msg = inner[1] if len(inner) > 1 else ''
        m = re.search(r'-> \[success: bb(\d+)', l[j:])
        return ('assert', parse_operand(cexpr), not neg, msg, int(m.group(1)))
    mc = _CALL_TAIL.search(l)
    if mc:
        head = l[:mc.start() + 1]          # "DEST = FUNC(ARGS)"
        ret_bb = int(mc.group(2)) if mc.group(2) else None
        # split "DEST = rest" at the first top-level " = "
        k = _find_assign(head)
        dest = parse_place(head[:k])
        rest = head[k + 3:]
        # FUNC(ARGS): the '(' matching the final ')'
        depth = 0
        j = len(rest) - 1
        while j >= 0:
            if rest[j] == ')':
                depth += 1
            elif rest[j] == '(':
                depth -= 1
                if depth == 0:
                    break
            j -= 1
        func = rest[:j].strip()
        args = tuple(parse_operand(x) for x in split_top(rest[j + 1:-1]))
        if func.startswith(('copy ', 'move ')):
            f = ('ptr', parse_operand(func))
        else:
            f = ('path', func, strip_generics(func))
        return ('call', dest, f, args, ret_bb)
    if l.endswith(';'):
        body = l[:-1]
        k = _find_assign(body)
        if k is not None:
            lhs = body[:k]
            if lhs.startswith('discriminant('):
                # SetDiscriminant
                return ('unsupported', l)
            try:
                return ('assign', parse_place(lhs), parse_rvalue(body[k + 3:]))
            except ParseError as e:
                return ('unsupported', l + '   // ' + str(e))
    return ('unsupported', l)


def _find_assign(s):
    """index of the first top-level ' = ' in s"""
    depth = 0
    j = 0
    n = len(s)
    while j < n:
        ch = s[j]
        if ch == '"':
            j = skip_string(s, j)
            continue
        if ch == "'":
            k = skip_char_lit(s, j)
            if k is not None:
                j = k
                continue
        if ch in OPEN:
            depth += 1
        elif ch in CLOSE:
            depth -= 1
        elif depth == 0 and s.startswith(' = ', j):
            return j
        j += 1
    return None


class Fn:
    __slots__ = ('name', 'key', 'nargs', 'blocks', 'locals', 'self_type', 'ret_type', 'arg_types',
                 'kind', 'promoted_of', 'promoted_idx', 'text_line', 'debug', 'allocs', 'captures')

    def __init__(self):
        self.blocks = {}
        self.locals = {}
        self.debug = {}
        self.allocs = {}
        self.captures = []
        self.kind = 'fn'
        self.promoted_of = None
        self.promoted_idx = None
        self.self_type = None

    def __repr__(self):
        return '<Fn %s>' % self.name


_FN_HEAD = re.compile(r'^fn (.+?)\((.*)\) -> (.+) \{$')
_CONST_HEAD = re.compile(r'^(const|static|static mut) (.+?): (.+) = \{$')
_CONST_ONE_LINE = re.compile(r'^const ([^ ]+): (.+?) = const (.+);$')
_INLINE_CONST_HEAD = re.compile(r'^()([^ ]+::\{constant#\d+\}): (.+) = \{$')
_PROMOTED = re.compile(r'^(.*)::promoted\[(\d+)\]$')


def parse_mir(text):
    """-> list of Fn"""
    fns = []
    lines = text.split('\n')
    i = 0
    n = len(lines)
    while i < n:
        l = lines[i]
        f = None
        m = _FN_HEAD.match(l)
        if m:
            f = Fn()
            f.name = m.group(1)
            f.kind = 'fn'
            args = split_top(m.group(2))
            f.nargs = len(args)
            f.arg_types = []
            for a in args:
                k = a.index(':')
                f.arg_types.append(a[k + 1:].strip())
            f.ret_type = m.group(3)
        else:
            m1 = _CONST_ONE_LINE.match(l)
            if m1:
                # `const NAME: T = const V;` - a constant printed on one line
                f = Fn()
                f.name = m1.group(1)
                f.kind = 'const'
                f.nargs = 0
                f.arg_types = []
                f.ret_type = m1.group(2)
                f.blocks[0] = [parse_stmt('_0 = const %s;' % m1.group(3)), parse_stmt('return;')]
                f.text_line = i + 1
                fns.append(f)
                i += 1
                continue
            m = _CONST_HEAD.match(l)
            if m is None and _INLINE_CONST_HEAD.match(l):
                m = _INLINE_CONST_HEAD.match(l)
            if m:
                body = l[len(m.group(1)) + 1:-4] if m.re is _CONST_HEAD else l[:-4]          # "NAME: TYPE"
                depth = 0
                k = None
                for j, ch in enumerate(body):
                    if ch == '<':
                        depth += 1
                    elif ch == '>' and body[j - 1] != '-':
                        depth -= 1
                    elif depth == 0 and body.startswith(': ', j):
                        k = j
                        break
                if k is None:
                    i += 1
                    continue
                f = Fn()
                f.name = body[:k]
                f.kind = 'const'
                f.nargs = 0
                f.arg_types = []
                f.ret_type = body[k + 2:]
                mp = _PROMOTED.match(f.name)
                if mp:
                    f.promoted_of = mp.group(1)
                    f.promoted_idx = int(mp.group(2))
        if f is None:
            ma = re.match(r'^(alloc\d+) \(static: ([^,]+),', l)
            if ma and fns:
                fns[-1].allocs[ma.group(1)] = ma.group(2).strip()
            i += 1
            continue
        f.text_line = i + 1
        i += 1
        cur = None
        while i < n and lines[i] != '}':
            s = lines[i].strip()
            mb = re.match(r'^bb(\d+)( \(cleanup\))?: \{$', s)
            if mb:
                cur = int(mb.group(1))
                f.blocks[cur] = []
            elif s == '}':
                cur = None
            elif cur is not None and s:
                st = parse_stmt(s)
                if st is not None:
                    f.blocks[cur].append(st)
            elif cur is None:
                ml = re.match(r'^let (mut )?_(\d+): (.*);$', s)
                if ml:
                    f.locals[int(ml.group(2))] = ml.group(3)
                md = re.match(r'^debug self => _1;$', s)
                if md and f.arg_types:
                    f.self_type = f.arg_types[0]
                md = re.match(r'^debug (\w+) => _(\d+);$', s)
                if md:
                    f.debug.setdefault(md.group(1), int(md.group(2)))
                mc = re.match(r'^debug (\w+) => .*\b_1\)?\.\d+', s)
                if mc and mc.group(1) not in f.captures:
                    f.captures.append(mc.group(1))      # a variable captured by this closure
            i += 1
        fns.append(f)
        i += 1
    return fns
