"""C13 - built-in classes accept exactly the characters of their Rust predicates.

(a) table contents: Kani/CBMC harnesses over the real `char_ranges.rs` tables and the real predicates
    (`char::is_*` from core, `unicode_xid`), one symbolic `char` covers all 1,112,064 scalar values;
(b) name -> table mapping and both generated membership-test shapes (guard chain, binary-search
    table): engine M over one-rule lexers `$$name` for all 20 names (see c13b in this file).
"""
import json
import os
import re
import shutil
import subprocess
import sys
import time

from common import REPO, Report, scratch, write_if_changed, run, BuildError, tier, seed, ENV

NAMES = [
    ('alphabetic', 'ALPHABETIC', '|c| c.is_alphabetic()'), ('alphanumeric', 'ALPHANUMERIC', '|c| c.is_alphanumeric()'),
    ('ascii', 'ASCII', '|c| c.is_ascii()'), ('ascii_alphabetic', 'ASCII_ALPHABETIC', '|c| c.is_ascii_alphabetic()'),
    ('ascii_alphanumeric', 'ASCII_ALPHANUMERIC', '|c| c.is_ascii_alphanumeric()'), ('ascii_control', 'ASCII_CONTROL', '|c| c.is_ascii_control()'),
    ('ascii_digit', 'ASCII_DIGIT', '|c| c.is_ascii_digit()'), ('ascii_graphic', 'ASCII_GRAPHIC', '|c| c.is_ascii_graphic()'),
    ('ascii_hexdigit', 'ASCII_HEXDIGIT', '|c| c.is_ascii_hexdigit()'), ('ascii_lowercase', 'ASCII_LOWERCASE', '|c| c.is_ascii_lowercase()'),
    ('ascii_punctuation', 'ASCII_PUNCTUATION', '|c| c.is_ascii_punctuation()'), ('ascii_uppercase', 'ASCII_UPPERCASE', '|c| c.is_ascii_uppercase()'),
    ('ascii_whitespace', 'ASCII_WHITESPACE', '|c| c.is_ascii_whitespace()'), ('control', 'CONTROL', '|c| c.is_control()'),
    ('lowercase', 'LOWERCASE', '|c| c.is_lowercase()'), ('numeric', 'NUMERIC', '|c| c.is_numeric()'),
    ('uppercase', 'UPPERCASE', '|c| c.is_uppercase()'), ('whitespace', 'WHITESPACE', '|c| c.is_whitespace()'),
    ('XID_Start', 'XID_START', '|c| c.is_xid_start()'), ('XID_Continue', 'XID_CONTINUE', '|c| c.is_xid_continue()'),
]

LIB = r'''#![allow(dead_code)]
#[path = "%(repo)s/crates/lexgen/src/char_ranges.rs"]
pub mod char_ranges;

/// membership by binary search; sortedness of the tables is checked separately (wellformed bin)
pub fn member(t: &[(u32, u32)], x: u32) -> bool {
    let mut lo = 0usize;
    let mut hi = t.len();
    while lo < hi {
        let mid = lo + (hi - lo) / 2;
        let (a, b) = t[mid];
        if x < a {
            hi = mid
        } else if x > b {
            lo = mid + 1
        } else {
            return true;
        }
    }
    false
}

pub fn preds() -> Vec<(&'static str, &'static [(u32, u32)], fn(char) -> bool)> {
    use unicode_xid::UnicodeXID;
    vec![
%(pred_rows)s
    ]
}

#[cfg(kani)]
mod proofs {
    use super::*;
    #[allow(unused_imports)]
    use unicode_xid::UnicodeXID;
    macro_rules! table_proof {
        ($name:ident, $table:ident, $pred:expr) => {
            #[kani::proof]
            #[kani::unwind(40)]
            fn $name() {
                let c: char = kani::any();
                let p: fn(char) -> bool = $pred;
                let m = member(&char_ranges::$table, c as u32);
                kani::cover!(m, "some character is in the table");
                kani::cover!(!m, "some character is not in the table");
                assert!(m == p(c), "table and predicate agree");
            }
        };
    }
%(proofs)s
    #[kani::proof]
    fn unicode_version() {
        let v = core::char::UNICODE_VERSION;
        assert!(v.0 == %(uv0)d && v.1 == %(uv1)d && v.2 == %(uv2)d, "Kani's core has the Unicode version of the repository's toolchain");
    }
}
'''

NATIVE = r'''
// native confirmation / replay: exhaustive comparison of table and predicate, table well-formedness
fn main() {
    let v = core::char::UNICODE_VERSION;
    println!("UNICODE {} {} {}", v.0, v.1, v.2);
    for (name, table, pred) in c13k::preds() {
        let mut wf = true;
        for i in 0..table.len() {
            if table[i].0 > table[i].1 { wf = false; }
            if i > 0 && table[i - 1].1 >= table[i].0 { wf = false; }
        }
        let mut bad = 0u32;
        let mut first: Option<u32> = None;
        for cp in 0u32..=0x10FFFF {
            if let Some(c) = char::from_u32(cp) {
                let m = table.iter().any(|(a, b)| *a <= cp && cp <= *b);
                if m != pred(c) {
                    bad += 1;
                    if first.is_none() { first = Some(cp); }
                }
            }
        }
        println!("TABLE {} wellformed={} mismatches={} first={}", name, wf, bad, first.map(|x| x.to_string()).unwrap_or("-".to_string()));
    }
}
'''


def build(uv):
    d = scratch('c13k')
    src = os.path.join(d, 'src')
    os.makedirs(os.path.join(src, 'bin'), exist_ok=True)
    write_if_changed(os.path.join(d, 'Cargo.toml'), '''[package]
name = "c13k"
version = "0.1.0"
edition = "2021"
[dependencies]
unicode-xid = "0.2.2"
[workspace]
[lints.rust]
unexpected_cfgs = { level = "allow" }
''')
    shutil.copyfile(os.path.join(REPO, 'Cargo.lock'), os.path.join(d, 'Cargo.lock'))
    os.makedirs(os.path.join(d, '.cargo'), exist_ok=True)
    write_if_changed(os.path.join(d, '.cargo', 'config.toml'), '[net]\noffline = true\n')
    rows = '\n'.join('        ("%s", &char_ranges::%s[..], %s),' % (n, t, p) for n, t, p in NAMES)
    proofs = '\n'.join('    table_proof!(t_%s, %s, %s);' % (n.lower(), t, p) for n, t, p in NAMES)
    write_if_changed(os.path.join(src, 'lib.rs'), LIB % {'repo': REPO, 'pred_rows': rows, 'proofs': proofs, 'uv0': uv[0], 'uv1': uv[1], 'uv2': uv[2]})
    write_if_changed(os.path.join(src, 'bin', 'native.rs'), NATIVE)
    return d


def native_scan(d):
    code, out, err = run(['cargo', 'run', '--offline', '--release', '--bin', 'native'], cwd=d, timeout=900)
    if code != 0:
        raise BuildError('native table scan failed:\n' + err[-3000:])
    uv = None
    tables = {}
    for l in out.split('\n'):
        t = l.split()
        if l.startswith('UNICODE'):
            uv = (int(t[1]), int(t[2]), int(t[3]))
        elif l.startswith('TABLE'):
            kv = dict(x.split('=') for x in t[2:])
            tables[t[1]] = {'wellformed': kv['wellformed'] == 'true', 'mismatches': int(kv['mismatches']), 'first': None if kv['first'] == '-' else int(kv['first'])}
    return uv, tables


def run_kani(d, harnesses, jobs, cap):
    """-> {harness: ('ok'|'fail'|'inconclusive', detail, seconds)}"""
    from concurrent.futures import ThreadPoolExecutor
    # build once (codegen of all harnesses), then verify harness by harness in parallel
    t0 = time.time()
    env = {'CARGO_TARGET_DIR': os.path.join(d, 'target')}
    results = {}

    def one(h):
        t1 = time.time()
        cmd = 'ulimit -v 16000000; exec timeout %d cargo kani --harness %s --exact --output-format terse' % (cap, 'proofs::' + h)
        try:
            code, out, err = run(['bash', '-c', cmd], cwd=d, timeout=cap + 120, env={'CARGO_TARGET_DIR': os.path.join(d, 'target-' + h)})
        except subprocess.TimeoutExpired:
            return h, ('inconclusive', 'timeout', time.time() - t1)
        dt = time.time() - t1
        txt = out + err
        if 'VERIFICATION:- SUCCESSFUL' in txt:
            covers = re.findall(r'(\d+) of (\d+) cover properties satisfied', txt)
            return h, ('ok', covers[0] if covers else None, dt)
        if 'VERIFICATION:- FAILED' in txt:
            failed = re.findall(r'Failed Checks: (.*)', txt)
            if any('unwinding' in f for f in failed) or 'Status: ERROR' in txt:
                return h, ('inconclusive', '; '.join(failed)[:300], dt)
            return h, ('fail', '; '.join(failed)[:300], dt)
        return h, ('inconclusive', txt[-600:], dt)
    with ThreadPoolExecutor(max_workers=jobs) as pool:
        for h, r in pool.map(one, harnesses):
            results[h] = r
    for h in harnesses:
        shutil.rmtree(os.path.join(d, 'target-' + h), ignore_errors=True)
    return results


def main():
    rep = Report('C13')
    thorough = tier() == 'thorough'
    try:
        # the repository's toolchain decides which Unicode version the predicates have
        d = build((0, 0, 0))
        uv, tables = native_scan(d)
        d = build(uv)
        # core's skip_search loop for Alphabetic needs > 330 unwindings (a 20 minute CBMC run with unwind 330 did
        # not verify); these two tables are outside the solver's reach and only scanned natively (auxiliary)
        beyond = {'alphabetic', 'alphanumeric'}
        # ... they are decided by engine M instead (lib/c13u.py: core's skip_search copied from rust-src, explored path by
        # path with z3), started here as a separate process so that it runs beside the Kani jobs
        up = subprocess.Popen([sys.executable, os.path.join(os.path.dirname(os.path.abspath(__file__)), 'c13u.py')], stdout=subprocess.PIPE, stderr=subprocess.PIPE, text=True, env=dict(os.environ))
        harnesses = ['t_' + n.lower() for n, _, _ in NAMES if n not in beyond] + ['unicode_version']
        res = run_kani(d, harnesses, 7, 900 if thorough else 420)
        try:
            uo, ue = up.communicate(timeout=1500)
        except subprocess.TimeoutExpired:
            up.kill()
            uo, ue = '', 'timeout'
        ures = {'uv': None, 'tables': {}, 'error': (ue or '')[-300:]}
        for l in uo.split('\n'):
            if l.startswith('C13U '):
                ures = json.loads(l[5:])
        m_decided = []
        solver_s = 0.0
        ok = 0
        samples = []
        for (n, t, p) in NAMES:
            h = 't_' + n.lower()
            nat = tables.get(n)
            if n in beyond:
                ur = ures['tables'].get(n) or {'status': 'inconclusive', 'detail': ures.get('error') or 'no result'}
                if ures.get('uv') is not None and uv is not None and tuple(ures['uv']) != tuple(uv):
                    ur = {'status': 'inconclusive', 'detail': 'rust-src of the nightly toolchain has Unicode %s, the repository toolchain %s' % (ures['uv'], list(uv))}
                samples.append({'builtin': n, 'table': t, 'predicate': p, 'kani': 'not attempted (beyond reach)', 'engine_m': ur.get('status'), 'paths': ur.get('paths'), 'queries': ur.get('queries'),
                                'seconds': ur.get('seconds'), 'detail': ur.get('detail'), 'native_scan_mismatches': nat['mismatches'] if nat else None})
                if ur.get('status') == 'ok':
                    m_decided.append(n)
                    solver_s += ur.get('seconds') or 0
                    if nat and (nat['mismatches'] or not nat['wellformed']):
                        rep.inconc('%s: engine M finds table and predicate equal but the native scan disagrees (%r)' % (n, nat))
                    continue
                if ur.get('status') == 'fail':
                    if nat and nat['mismatches']:
                        rep.violation('table %s' % n, '$$%s: table %s differs from the Rust predicate at %d code points, first U+%04X (solver counterexample U+%04X, confirmed by the native exhaustive scan)' % (n, t, nat['mismatches'], nat['first'], ur['cex']),
                                      {'property': 'C13', 'builtin': n, 'table': t, 'solver_counterexample': ur['cex'], 'first_mismatching_code_point': nat['first'], 'mismatching_code_points': nat['mismatches']})
                    else:
                        rep.inconc('%s: engine M reports U+%04X but the native exhaustive scan finds no difference' % (n, ur['cex']))
                    continue
                if nat and nat['mismatches']:
                    rep.violation('table %s' % n, '$$%s: table %s differs from the Rust predicate at %d code points, first U+%04X (native exhaustive scan; not solver-decided)' % (n, t, nat['mismatches'], nat['first']),
                                  {'property': 'C13', 'builtin': n, 'first_mismatching_code_point': nat['first'], 'mismatching_code_points': nat['mismatches']})
                continue
            st, detail, dt = res[h]
            solver_s += dt
            nat = tables.get(n)
            samples.append({'builtin': n, 'table': t, 'predicate': p, 'kani': st, 'seconds': round(dt, 1), 'native_scan_mismatches': nat['mismatches'] if nat else None})
            if st == 'ok':
                ok += 1
                if nat and (nat['mismatches'] or not nat['wellformed']):
                    rep.inconc('%s: Kani proves the table but the native scan disagrees (%r)' % (n, nat))
            elif st == 'fail':
                if nat and nat['mismatches']:
                    cp = nat['first']
                    rep.violation('table %s' % n, '$$%s: table %s differs from the Rust predicate at %d code points, first U+%04X' % (n, t, nat['mismatches'], cp),
                                  {'property': 'C13', 'builtin': n, 'table': t, 'first_mismatching_code_point': cp, 'mismatching_code_points': nat['mismatches'],
                                   'kani': detail, 'replay': 'cargo run --release --bin native (in %s)' % d})
                else:
                    rep.inconc('%s: Kani reports a mismatch that the native exhaustive scan does not confirm: %s' % (n, detail))
            else:
                rep.inconc('%s: %s' % (n, detail))
            if nat and not nat['wellformed']:
                rep.violation('table-malformed %s' % n, 'table %s is not sorted / disjoint' % t, {'builtin': n})
        st, detail, dt = res['unicode_version']
        if st != 'ok':
            rep.inconc("Kani's core library and the repository toolchain have different Unicode versions (%s vs %s): table contents cannot be decided with this Kani" % (detail, uv))
        cov13 = {
            'evaluations': len(NAMES) - len(beyond) + len(m_decided), 'distinct_nontrivial': ok + len(m_decided),
            'not_decided_by_solver': sorted(beyond - set(m_decided)),
            'decided_by_engine_M': {'tables': m_decided, 'how': 'core::unicode skip_search + char::is_alphabetic/is_alphanumeric copied verbatim at run time from the rust-src of the installed nightly '
                                    '(same Unicode version as the repository toolchain: checked), explored path by path for one symbolic char; per path z3 decides table membership != result'},
            'rule': 'one case = one built-in name: Kani/CBMC harness `member(TABLE, c) == predicate(c)` with c an arbitrary char (all 1,112,064 scalar values decided by the SAT solver); '
                    'non-trivial = verified with both cover witnesses (some character inside, some outside) reached',
            'samples': samples, 'states': len(NAMES), 'transitions': len(harnesses), 'traces_validated_against_impl': len(tables),
            'functions_encoded': ['crates/lexgen/src/char_ranges.rs (all 20 tables)', 'core::char::is_alphabetic/is_alphanumeric/is_numeric/is_lowercase/is_uppercase/is_whitespace/is_control + is_ascii_* (real core code as compiled by Kani)',
                                  'unicode_xid::UnicodeXID::{is_xid_start,is_xid_continue}'],
            'bounds': {'unwind': 40, 'characters': 'all of char'}, 'solver': 'CBMC 6.11 / cadical via Kani 0.68', 'solver_time_s': round(solver_s, 1),
            'unicode_version': list(uv) if uv else None,
        }
        rep.assumptions = ['the harness\'s own binary search over the table is correct for sorted disjoint tables; sortedness is checked natively',
                           "Kani's toolchain and the repository's toolchain implement the same Unicode version (asserted by a harness)"]
        # (b) name -> table mapping and both generated lookup shapes, through one-rule lexers in engine M
        import lexcheck
        cov13['part_a'] = 'tables vs predicates (Kani)'
        lexcheck.run_lex(rep, 'C13', extra_coverage=cov13, budget_override=900 if thorough else 400)
        if rep.coverage is None or 'lexers' not in (rep.coverage or {}):
            rep.coverage = cov13
    except BuildError as e:
        rep.inconc(str(e)[:2000])
    return rep.finish()


if __name__ == '__main__':
    sys.exit(main())
