"""Shared plumbing: paths, scratch directories, MIR dumps, evidence files, known findings."""
import hashlib
import json
import os
import shutil
import signal
import subprocess
import sys
import time

VERIF = os.path.dirname(os.path.dirname(os.path.abspath(__file__)))
REPO = os.environ.get('VERIF_REPO', '/repo')
WORK = os.environ.get('VERIF_WORK', os.path.join(VERIF, '.work'))
EVIDENCE = os.path.join(VERIF, 'evidence')
REPLAYS = os.path.join(VERIF, 'replays')
if REPO != '/repo':
    # trial runs against a scratch copy of the repository must not overwrite the evidence of /repo
    EVIDENCE = os.path.join(WORK, 'evidence')
    REPLAYS = os.path.join(WORK, 'replays')
KNOWN = os.path.join(VERIF, 'known_findings.txt')

ENV = dict(os.environ)
ENV['CARGO_NET_OFFLINE'] = 'true'
ENV.setdefault('CARGO_TERM_COLOR', 'never')


def tier():
    t = os.environ.get('VERIF_TIER', 'quick')
    return t if t in ('quick', 'thorough') else 'quick'


def seed():
    try:
        return int(os.environ.get('VERIF_SEED', '1'))
    except ValueError:
        return 1


def scratch(name):
    d = os.path.join(WORK, name)
    os.makedirs(d, exist_ok=True)
    return d


def rm(path):
    shutil.rmtree(path, ignore_errors=True)


def write_if_changed(path, text):
    os.makedirs(os.path.dirname(path), exist_ok=True)
    try:
        if open(path).read() == text:
            return False
    except OSError:
        pass
    with open(path, 'w') as f:
        f.write(text)
    return True


def run(cmd, cwd=None, timeout=None, env=None, input=None):
    """run a command in its own process group; on timeout the whole group is killed (a looping
    proc macro lives in a rustc grandchild that would otherwise survive cargo)"""
    e = dict(ENV)
    if env:
        e.update(env)
    p = subprocess.Popen(cmd, cwd=cwd, env=e, stdin=subprocess.PIPE if input is not None else subprocess.DEVNULL,
                         stdout=subprocess.PIPE, stderr=subprocess.PIPE, text=True, start_new_session=True)
    try:
        out, err = p.communicate(input=input, timeout=timeout)
    except subprocess.TimeoutExpired:
        try:
            os.killpg(p.pid, signal.SIGKILL)
        except OSError:
            pass
        p.wait()
        raise
    return p.returncode, out, err


def repo_hash(subdirs=('crates',)):
    """hash of the working-tree content of the sources the checks depend on"""
    h = hashlib.sha256()
    for sd in subdirs:
        base = os.path.join(REPO, sd)
        for root, dirs, files in os.walk(base):
            dirs[:] = sorted(d for d in dirs if d not in ('target', '.git'))
            for fn in sorted(files):
                if not fn.endswith(('.rs', '.toml', '.lalrpop')):
                    continue
                p = os.path.join(root, fn)
                h.update(os.path.relpath(p, REPO).encode())
                with open(p, 'rb') as f:
                    h.update(f.read())
    lock = os.path.join(REPO, 'Cargo.lock')
    if os.path.exists(lock):
        h.update(open(lock, 'rb').read())
    return h.hexdigest()[:16]


def dump_mir(crate_dir, extra_env=None, timeout=600):
    """`cargo +nightly rustc --lib -- -Zunpretty=mir` in crate_dir -> MIR text.
    debug-assertions=off, overflow-checks=on: the arithmetic checks of the dev profile are kept
    as `assert` terminators, std's internal debug assertions are not."""
    lib = os.path.join(crate_dir, 'src', 'lib.rs')
    os.utime(lib, None)
    code, out, err = run(['cargo', '+nightly', 'rustc', '--offline', '--lib', '--', '-Zunpretty=mir',
                          '-C', 'debug-assertions=off', '-C', 'overflow-checks=on'],
                         cwd=crate_dir, timeout=timeout, env=extra_env)
    if code != 0 or 'fn ' not in out:
        raise BuildError('MIR dump failed in %s:\n%s' % (crate_dir, err[-4000:]))
    return out


class BuildError(Exception):
    pass


# ------------------------------------------------------------------------------------------------
# known findings

def load_known(prop):
    """-> list of (key, text) for `property=<prop> <key...>` lines that are not `fixed:`"""
    out = []
    try:
        for l in open(KNOWN):
            l = l.strip()
            if not l or l.startswith('#') or l.startswith('fixed:'):
                continue
            parts = l.split(None, 1)
            if parts[0] == 'property=' + prop and len(parts) > 1:
                out.append(parts[1])
    except OSError:
        pass
    return out


class Report:
    """collects the outcome of one check run, prints the protocol lines, writes evidence"""

    def __init__(self, prop, level='model_checking'):
        self.prop = prop
        self.level = level
        self.t0 = time.time()
        self.violations = []        # (key, description, replay path)
        self.known_hits = []
        self.inconclusive = []
        self.coverage = {}
        self.assumptions = []
        self.known = load_known(prop)

    def violation(self, key, desc, replay_obj):
        """key: role-based identifier matched against known_findings.txt"""
        for k in self.known:
            kt = k.split()
            if key.split()[:len(kt)] == kt:
                if k not in [x[0] for x in self.known_hits]:
                    self.known_hits.append((k, desc))
                return False
        if key in [v[0] for v in self.violations]:
            self.more = getattr(self, 'more', 0) + 1
            return True      # one replay per role; further instances are only counted
        os.makedirs(os.path.join(REPLAYS, self.prop), exist_ok=True)
        blob = json.dumps(replay_obj, indent=1, sort_keys=True, default=str)
        name = hashlib.sha256(blob.encode()).hexdigest()[:12] + '.json'
        path = os.path.join(REPLAYS, self.prop, name)
        with open(path, 'w') as f:
            f.write(blob)
        self.violations.append((key, desc, path))
        return True

    def inconc(self, what):
        self.inconclusive.append(what)

    def finish(self):
        wall = time.time() - self.t0
        cov = dict(self.coverage)
        cov.setdefault('evaluations', 0)
        cov.setdefault('distinct_nontrivial', 0)
        cov['inconclusive'] = self.inconclusive[:50]
        cov['known_findings_hit'] = [k for k, _ in self.known_hits]
        ev = {
            'property_id': self.prop,
            'tier': tier(),
            'seed': seed(),
            'level': self.level,
            'coverage': cov,
            'assumptions': self.assumptions,
            'wall_s': round(wall, 2),
            'violations': len(self.violations) + getattr(self, 'more', 0),
        }
        os.makedirs(EVIDENCE, exist_ok=True)
        with open(os.path.join(EVIDENCE, self.prop + '.json'), 'w') as f:
            json.dump(ev, f, indent=1, default=str)
        for k, desc in self.known_hits:
            print('KNOWN-FINDING: property=%s %s (%s)' % (self.prop, k, desc))
        for key, desc, path in self.violations:
            print('VIOLATION property=%s replay=%s' % (self.prop, path))
            print('  %s: %s' % (key, desc))
        if self.violations:
            return 1
        if self.inconclusive:
            print('INCONCLUSIVE property=%s: %d item(s), first: %s' % (self.prop, len(self.inconclusive), self.inconclusive[0]))
            return 2
        print('OK property=%s tier=%s wall=%.1fs evaluations=%s' % (self.prop, tier(), wall, cov.get('evaluations')))
        return 0
