"""Run-time properties C01..C10 (C14, C15 in lexcheck2): one-step harness over generated families of
lexer definitions.  usage: lexcheck.py <property id>"""
import hashlib
import itertools
import json
import multiprocessing as mp
import os
import random
import sys
import time
import traceback

import z3

from common import (REPO, WORK, Report, scratch, run, tier, seed, repo_hash, BuildError)
from mirse.exec import Program, Inconclusive, OverBudget
from mirse import summaries as SM
from lex import families as F, crate as C, step as ST, spec as SP, regex as R, select, extra as EX

_G = {}


def util_mir():
    code, out, err = run(['cargo', '+nightly', 'rustc', '--offline', '--manifest-path', REPO + '/crates/lexgen_util/Cargo.toml',
                          '--target-dir', scratch('utilmir'), '--lib', '--', '-Zunpretty=mir', '-C', 'debug-assertions=off',
                          '-C', 'overflow-checks=on'], timeout=600)
    if code != 0 or 'fn ' not in out:
        raise BuildError('MIR dump of lexgen_util failed:\n' + err[-3000:])
    return out


def def_key(d, N, variants, rh):
    text = d.lexer_text('L') + repr(sorted(d.tags)) + repr((N, d.nmax, variants, rh, ST_VERSION, ST.MAX_DYN[0]))
    return hashlib.sha256(text.encode()).hexdigest()[:20]


ST_VERSION = 17      # bump to invalidate cached per-definition results when the harness changes


def work_def(args):
    """worker: all steps of one definition.  returns a picklable dict"""
    i, N, variants, budget = args
    d = _G['defs'][i]
    prog = _G['prog']
    t0 = time.time()
    c0 = time.process_time()     # budgets are CPU time of this worker, so coverage does not depend on the load of the host
    res = {'idx': i, 'mismatches': [], 'inconclusive': None, 'stats': None, 'over_budget': False}
    try:
        msg = d.oracle_selfcheck()
        if msg:
            raise Inconclusive('oracle self-check failed (machinery defect, no verdict): ' + msg)
        h = ST.StepHarness(prog, i, d, min(N, d.nmax) if d.nmax else N, fields=_G['fields'])
        h.width_table = _G.get('width_table')
        h.width_keys = [x[0] for x in (h.width_table or [])]
        h.ex.deadline = c0 + budget
        nseen = {}
        runs = []
        if _G.get('prop') == 'C14':
            runs.append((0, False, False, lambda: EX.run_c14(h)))
        else:
            for rho in range(len(d.rulesets)):
                for var in variants:
                    prepeek, done = var[0], var[1]
                    ncalls = var[2] if len(var) > 2 else 1
                    if (done or ncalls > 1) and rho != 0:
                        continue
                    if _G.get('prop') == 'C15':
                        runs.append((rho, prepeek, done, (lambda r, p, dn: (lambda: EX.run_c15(h, r, p, dn)))(rho, prepeek, done)))
                    else:
                        runs.append((rho, prepeek, done, (lambda r, p, dn, nc: (lambda: h.run_step(r, prepeek=p, done=dn, ncalls=nc)))(rho, prepeek, done, ncalls)))
        for rho, prepeek, done, thunk in runs:
            if True:
                for m in thunk():
                    rk = (tuple(sorted(m.aspects)), ''.join(ch for ch in m.what if not ch.isdigit()))
                    nseen[rk] = nseen.get(rk, 0) + 1
                    if nseen[rk] > 3:
                        continue
                    res['mismatches'].append({
                        'aspects': sorted(m.aspects), 'what': m.what, 'rho': rho, 'prepeek': prepeek, 'done': done,
                        'concrete': ST.concretize(h, m.model, m.detail.get('decisions', ())) if m.model is not None else None,
                        'expected': m.detail.get('expected'), 'ctor': m.detail.get('ctor'), 'post': bool(getattr(m, 'post', False)),
                    })
        if _G.get('prop') == 'C14' and not res['mismatches']:
            # behaviour, not only construction: next()/backtrack()/actions read the `input` field, the one field that
            # differs by design ("" for iterator lexers). One call from every boundary state is explored for the
            # definition constructed from &str and from an iterator; each is compared with the reference, so a
            # disagreement that only one of the two shows is a dependence on how the characters were supplied
            import copy
            found = {}
            for flag in (False, True):
                d2 = copy.copy(d)
                d2.str_input = flag
                hh = ST.StepHarness(prog, i, d2, min(N, d.nmax) if d.nmax else N, fields=_G['fields'])
                hh.width_table = h.width_table
                hh.width_keys = h.width_keys
                hh.ex.deadline = c0 + budget
                for rho in range(len(d.rulesets)):
                    for m in hh.run_step(rho):
                        rk = (rho, tuple(sorted(m.aspects)), ''.join(ch for ch in m.what if not ch.isdigit()))
                        found.setdefault(rk, {})[flag] = (m, hh)
                h.stats['paths'] += hh.stats['paths']
                h.ex.queries += hh.ex.queries
                h.ex.solver_time += hh.ex.solver_time
                for k, v in hh.stats['covers'].items():
                    h.stats['covers'][k] = h.stats['covers'].get(k, 0) + v
            for rk, byflag in found.items():
                if len(byflag) == 2:
                    continue        # both kinds of lexer disagree with the reference in the same way: not a C14 matter
                flag = list(byflag)[0]
                m, hh = byflag[flag]
                if nseen.get(rk[1:], 0) >= 3:
                    continue
                nseen[rk[1:]] = nseen.get(rk[1:], 0) + 1
                res['mismatches'].append({
                    'aspects': ['ctor'], 'what': 'only the lexer constructed from %s: %s' % ('&str' if flag else 'an iterator', m.what), 'rho': rk[0], 'prepeek': False, 'done': False,
                    'concrete': ST.concretize(hh, m.model, m.detail.get('decisions', ())) if m.model is not None else None,
                    'expected': m.detail.get('expected'), 'ctor': 'new_with_state' if flag else 'new_from_iter_with_state', 'post': bool(getattr(m, 'post', False)),
                })
        # definitions that are cheap at N get a deeper bound as well (first variant only)
        deepN = None
        if _G.get('prop') not in ('C14', 'C15') and not d.nmax and time.process_time() - c0 < 6 and not res['mismatches']:
            deepN = N + 2
            h2 = ST.StepHarness(prog, i, d, deepN, fields=_G['fields'])
            h2.width_table = h.width_table
            h2.width_keys = h.width_keys
            h2.ex.deadline = time.process_time() + min(40, budget)
            try:
                for rho in range(len(d.rulesets)):
                    for m in h2.run_step(rho):
                        rk = (tuple(sorted(m.aspects)), ''.join(ch for ch in m.what if not ch.isdigit()))
                        nseen[rk] = nseen.get(rk, 0) + 1
                        if nseen[rk] > 3:
                            continue
                        res['mismatches'].append({
                            'aspects': sorted(m.aspects), 'what': m.what, 'rho': rho, 'prepeek': False, 'done': False,
                            'concrete': ST.concretize(h2, m.model, m.detail.get('decisions', ())) if m.model is not None else None,
                            'expected': m.detail.get('expected'), 'ctor': None, 'post': bool(getattr(m, 'post', False)),
                        })
                h.stats['paths'] += h2.stats['paths']
                h.ex.queries += h2.ex.queries
                h.ex.solver_time += h2.ex.solver_time
                for k, v in h2.stats['covers'].items():
                    h.stats['covers'][k] = h.stats['covers'].get(k, 0) + v
            except OverBudget:
                deepN = None
        st = h.stats
        st['deep_N'] = deepN
        st['queries'] = h.ex.queries
        st['solver_time'] = round(h.ex.solver_time, 3)
        st['cache_hits'] = h.ex.cache_hits
        st['fn_cover'] = {k: len(v) for k, v in h.ex.fn_cover.items() if ('::next' in k or 'RIGHT_CTX' in k or 'backtrack' in k)}
        st['mismatch_roles'] = {'%s | %s' % ('+'.join(k[0]), k[1]): v for k, v in nseen.items()}
        res['stats'] = st
    except OverBudget as e:
        res['over_budget'] = not res['mismatches']
        res['over_budget_reason'] = str(e)[:200]
        res['inconclusive'] = None
        if _G.get('prop') == 'C15' and res['over_budget'] and getattr(h.ex, 'hidden_state', False):
            # independence of clones cannot be left undecided when next() touches state outside the lexer value
            res['over_budget'] = False
            res['inconclusive'] = ('next() reads or writes mutable state outside the lexer value (static atomics / thread-locals) and the solver did not '
                                   'decide within the budget whether a clone and its original can influence each other: ' + str(e)[:200])
    except Inconclusive as e:
        res['inconclusive'] = str(e)[:1500]
    except Exception as e:
        res['inconclusive'] = 'internal error: ' + traceback.format_exc()[-1500:]
    if res['stats'] is None and res['inconclusive'] is None:
        try:
            st = h.stats
            st['queries'] = h.ex.queries
            st['solver_time'] = round(h.ex.solver_time, 3)
            st['cache_hits'] = h.ex.cache_hits
            st['deep_N'] = None
            st['fn_cover'] = {}
            res['stats'] = st
        except Exception:
            res['stats'] = {'paths': 0, 'queries': 0, 'ref_outcomes': 0, 'solver_time': 0.0, 'covers': {}, 'deep_N': None}
    res['time'] = round(time.time() - t0, 2)
    return res


def validate_def(h, crate, i, d, rng, widths_fn, count):
    """executor (concrete mode) vs natively compiled lexer on random concrete inputs"""
    comp = d.compiled()
    reps = [comp.part.representative(c) for c in range(comp.part.n)]
    extra = [10, 9, 0x4E2D, 0x301, 0xE9]
    cases = []
    for _ in range(count):
        n = rng.randrange(0, 6)
        cps = [rng.choice(reps + extra) for _ in range(n)]
        rho = rng.randrange(len(d.rulesets))
        script = [rng.randrange(0, 5) for _ in range(6)]
        cases.append((cps, rho, rng.random() < 0.3, script, rng.randrange(1, 1000)))
    ctor = 1 if d.str_input else 0
    lines = [C.drv_line(i, rho, pp, err, len(cps) + 2, ctor, 255, script, cps) for cps, rho, pp, script, err in cases]
    outs = crate.native_run(lines)
    allcps = sorted(set(cp for c in cases for cp in c[0]))
    widths = widths_fn(allcps)
    bad = []
    refbad = []
    for (cps, rho, pp, script, err), nat in zip(cases, outs):
        if nat == 'HANG':
            # the natively compiled lexer does not return on this input: no need to ask the executor
            ref = '|'.join(SP.ref_run_concrete(d, cps, rho, script, err, len(cps) + 2, widths))
            refbad.append({'input': cps, 'rho': rho, 'script': script, 'native': 'HANG (next() did not return within 10 s)', 'reference': ref, 'hang': True,
                           'driver_line': C.drv_line(i, rho, pp, err, len(cps) + 2, ctor, 255, script, cps)})
            continue
        mine = '|'.join(ST.concrete_run(h, cps, rho, pp, script, err, len(cps) + 2, widths))
        if mine != nat:
            bad.append({'input': cps, 'rho': rho, 'prepeek': pp, 'script': script, 'native': nat, 'executor': mine})
        ref = '|'.join(SP.ref_run_concrete(d, cps, rho, script, err, len(cps) + 2, widths))
        if ref != nat:
            refbad.append({'input': cps, 'rho': rho, 'script': script, 'native': nat, 'reference': ref})
    return len(cases), bad, refbad


def replay(crate, i, d, mm, widths_fn):
    """native replay of a solver counterexample.  The input found by the solver is extended by
    short suffixes so that post-state disagreements become visible in later items.
    -> (confirmed, detail)"""
    conc = mm['concrete']
    if conc is None:
        return False, 'no model'
    if conc['L'] != [0, 0, 0]:
        return False, 'counterexample needs a non-zero start location %s, which cannot be set up natively' % (conc['L'],)
    comp = d.compiled()
    reps = sorted(set(comp.part.representative(c) for c in range(comp.part.n)))
    base = conc['input']
    script = conc['script']
    if mm['what'].startswith('next() calls itself'):
        # long runs of the lexemes the witness skips inside one call: a recursive next() overflows its stack
        ctor = 1 if d.str_input else 0
        tried = 0
        for k in range(1, len(base) + 1):
            unit = list(base[:k])
            for sep in [[]] + [[r] for r in reps[:8]]:
                piece = unit + sep
                reps_n = 400000 // max(1, len(piece))
                long_in = piece * reps_n
                line = C.drv_line(i, mm['rho'], False, conc['err'], 1, ctor, 255, script + [0] * 8, long_in)
                out1 = crate.native_run([line], timeout=120)
                tried += 1
                if not out1 or out1[0] in ('HANG', 'NOOUTPUT'):
                    return True, {'input': unit + sep, 'input_text': '%r repeated %d times' % (''.join(chr(x) for x in piece), reps_n), 'start_rule_set': d.rs_names()[mm['rho']],
                                  'native': 'the process dies (stack overflow) or does not return during the first next() call', 'repeat': reps_n, 'piece': piece,
                                  'how': 'driver line: module %d, start %d, one call, input = piece repeated' % (i, mm['rho'])}
        return False, 'next() is recursive on the witness input, but none of %d long inputs built from it overflowed the native stack' % tried
    sufs = [()]
    for k in (1, 2, 3):
        if len(reps) ** k > 600:
            break
        sufs += list(itertools.product(reps, repeat=k))
    cands = [list(base) + list(s) for s in sufs]
    allcps = sorted(set(cp for c in cands for cp in c))
    widths = widths_fn(allcps)
    ctor = 1 if d.str_input else 0
    lines = [C.drv_line(i, mm['rho'], mm['prepeek'], conc['err'], len(c) + 2, ctor, 255, script + [0] * 8, c) for c in cands]
    outs = crate.native_run(lines)
    for c, nat in zip(cands, outs):
        ref = '|'.join(SP.ref_run_concrete(d, c, mm['rho'], script + [0] * 8, conc['err'], len(c) + 2, widths))
        if nat != ref:
            return True, {'input': c, 'input_text': ''.join(chr(x) for x in c), 'start_rule_set': d.rs_names()[mm['rho']],
                          'script': script, 'native': nat.split('|'), 'reference': ref.split('|'),
                          'driver_line': C.drv_line(i, mm['rho'], mm['prepeek'], conc['err'], len(c) + 2, ctor, 255, script + [0] * 8, c)}
    return False, 'native code agrees with the reference on the counterexample input and %d extensions' % (len(cands) - 1)


def replay_variant(prop, crate, i, d, mm, widths_fn):
    """C14: the four constructors natively on short inputs; C15: clone before call k versus no clone"""
    comp = d.compiled()
    reps = sorted(set(comp.part.representative(c) for c in range(comp.part.n)))
    words = [()]
    for k in (1, 2, 3, 4):
        if len(reps) ** k > 700:
            break
        words += list(itertools.product(reps, repeat=k))
    script = [0, 1, 2, 0, 1, 2, 0, 1]
    if mm.get('concrete') and mm['concrete'].get('input') is not None:
        # the solver's own witness (e.g. a specific first character) is tried first
        w0 = tuple(mm['concrete']['input'])
        words = [w0] + [w0 + (r,) for r in reps[:6]] + words
    rho0 = mm.get('rho', 0) if prop == 'C14' else 0
    if prop == 'C14':
        script = (list(mm['concrete'].get('script') or []) if mm.get('concrete') else []) + [0] * 8
    base = [C.drv_line(i, rho0, False, 0, len(w) + 2, 0, 255, script, list(w)) for w in words]
    base_out = crate.native_run(base)
    variants = [(c, 255) for c in (1, 2, 3)] if prop == 'C14' else [(0, k) for k in (0, 1, 2)] + [(0, 100 + k) for k in (0, 1, 2)]
    for ctor, clone_at in variants:
        lines = [C.drv_line(i, rho0, False, 0, len(w) + 2, ctor, clone_at, script, list(w)) for w in words]
        outs = crate.native_run(lines)
        for w, a, b in zip(words, base_out, outs):
            if clone_at != 255:
                # the clone continues after the original made one more call: compare the clone's stream with the
                # original's stream (same calls)
                pass
            if a != b:
                return True, {'input': list(w), 'input_text': ''.join(chr(x) for x in w), 'start_rule_set': d.rs_names()[rho0], 'constructor': ctor, 'clone_before_call': clone_at,
                              'native_reference_variant': a.split('|'), 'native_this_variant': b.split('|')}
    return False, 'all native variants agree on %d inputs' % len(words)


def role_key(d, mm):
    a = '+'.join(mm['aspects'])
    w = mm['what']
    w = ''.join(ch for ch in w if not ch.isdigit())
    w = '-'.join(w.lower().split()[:6])
    return '%s %s' % (a, w)


def main(prop):
    rep = Report(prop)
    run_lex(rep, prop)
    return rep.finish()


def run_lex(rep, prop, extra_coverage=None, budget_override=None):
    """run the step harness over the family of `prop` and record verdicts in rep"""
    rng = random.Random(seed() * 7919 + int(prop[1:]))
    thorough = tier() == 'thorough'
    budget = budget_override or (600 if thorough else (180 if prop == 'C15' else 100))
    ST.MAX_DYN[0] = 3 if thorough else 2
    try:
        defs, N, variants = select.select(prop, thorough, rng)
        rh = repo_hash()
        cache_dir = scratch('cache')
        keys = [def_key(d, N, variants, rh) for d in defs]
        cached = {}
        for i, k in enumerate(keys):
            p = os.path.join(cache_dir, k + '.json')
            # the per-definition result cache is a development aid only (VERIF_CACHE=1): a registered check always
            # recomputes everything, so that its evidence describes the work of this very run
            if os.path.exists(p) and os.environ.get('VERIF_CACHE') == '1':
                try:
                    cached[i] = json.load(open(p))
                except Exception:
                    pass
        crate = C.LexCrate(defs, 'lex-' + prop)
        need_build = len(cached) < len(defs)
        results = dict(cached)
        validated = 0
        widths_cache = {}

        def widths_fn(cps):
            miss = [c for c in cps if c not in widths_cache]
            if miss:
                widths_cache.update(crate.widths(miss))
            return widths_cache
        built = False

        def ensure_built():
            nonlocal built
            if built:
                return
            t0 = time.time()
            mir, drv = crate.build_all()
            um = util_mir()
            prog = Program()
            prog.add_dump(mir)
            prog.add_dump(um)
            _G['prog'] = prog
            _G['prop'] = prop
            _G['defs'] = defs
            _G['fields'] = ST.lexer_fields(prog)
            R.BUILTINS.update(crate.builtin_ranges())
            _G['width_table'] = sorted(crate.width_ranges())
            built = True
            if os.environ.get('VERIF_VERBOSE'):
                print('  built harness crate (%d definitions, %d not expandable) in %.0fs' % (len(defs), len(crate.errors), time.time() - t0), file=sys.stderr)
        if any(('builtin' in repr(r.regex) or (r.ctx and 'builtin' in repr(r.ctx))) for d in defs for _, rs in d.rulesets for r in rs):
            ensure_built()
        if need_build:
            ensure_built()
            todo = [i for i in range(len(defs)) if i not in cached and i in crate.live]
            # translator validation on a few definitions (concrete executor vs native)
            nval = 0
            for i in todo[:(12 if thorough else 6)]:
                try:
                    h = ST.StepHarness(_G['prog'], i, defs[i], N, fields=_G['fields'])
                    n, bad, refbad = validate_def(h, crate, i, defs[i], rng, widths_fn, 40 if thorough else 15)
                except Inconclusive as e:
                    rep.inconc('validation of the executor on %s: %s' % (defs[i].name, str(e)[:500]))
                    continue
                validated += n
                for hb in [x for x in refbad if x.get('hang')][:1]:
                    asp = {'progress'}
                    if any(SP.ends_in_eof(r.regex) for _, rs_ in defs[i].rulesets for r in rs_):
                        asp.add('eof')
                    if prop in ST.props_of(asp):
                        import hashlib
                        rep.violation('hang ' + defs[i].name, '%s: next() of the natively compiled lexer does not return; input %r from rule set %s' % (defs[i].name, ''.join(chr(c) for c in hb['input']), defs[i].rs_names()[hb['rho']]),
                                      {'property': prop, 'definition': defs[i].lexer_text('L%d' % i).split('\n'), 'replay': {'driver_line': hb['driver_line'], 'reference': hb['reference'].split('|')}, 'input': hb['input']})
                    else:
                        rep.inconc('%s: the natively compiled lexer does not return on input %r (a matter of %s); no verdict for %s' % (defs[i].name, hb['input'], '/'.join(sorted(ST.props_of(asp))), prop))
                for b in bad[:2]:
                    rep.inconc('MIR executor and native code disagree on a concrete input (translator defect, no verdict): %r' % (b,))
            if rep.inconclusive:
                return
            with mp.Pool(min(16, max(1, len(todo)))) as pool:
                for r in pool.imap_unordered(work_def, [(i, N, variants, budget) for i in todo]):
                    results[r['idx']] = r
                    if r['inconclusive'] is None and not r.get('over_budget') and os.environ.get('VERIF_CACHE') == '1':
                        with open(os.path.join(cache_dir, keys[r['idx']] + '.json'), 'w') as f:
                            json.dump(r, f)
                    if os.environ.get('VERIF_VERBOSE'):
                        print('  %-14s %6.1fs %s' % (defs[r['idx']].name, r['time'], r['inconclusive'] or ('OVER BUDGET' if r.get('over_budget') else '%d mismatches' % len(r['mismatches']))), file=sys.stderr)
        # ---- verdicts
        tot = {'paths': 0, 'queries': 0, 'ref_outcomes': 0, 'solver_time': 0.0}
        covers = {}
        nontrivial = 0
        samples = []
        other = {}
        deep = 0
        over = []
        unobservable = []
        for i, d in enumerate(defs):
            if i in crate.errors:
                continue
            r = results.get(i)
            if r is None:
                continue
            if r['inconclusive']:
                rep.inconc('%s: %s' % (d.name, r['inconclusive']))
                continue
            if r.get('over_budget'):
                over.append(d.name)
                if not r.get('stats'):
                    continue
            stt = r['stats']
            if stt.get('deep_N'):
                deep += 1
            for k in tot:
                tot[k] += stt.get(k, 0)
            for k, v in stt['covers'].items():
                covers[k] = covers.get(k, 0) + v
            if select.nontrivial(prop, stt['covers']):
                nontrivial += 1
            if len(samples) < 4:
                samples.append({'definition': d.lexer_text('L').split('\n'), 'paths': stt['paths'], 'witnesses': stt['covers']})
            seen = set()
            for mm in r['mismatches']:
                props = ST.props_of(mm['aspects'])
                if 'builtin' in d.tags and ({'match', 'lang'} & set(mm['aspects'])):
                    props.add('C13')
                if 'class' in d.tags and ({'match', 'lang'} & set(mm['aspects'])):
                    props.add('C11')
                if 'C02' in d.tags and ({'match', 'lang'} & set(mm['aspects'])):
                    # definitions of the regex-language family: a wrong lexeme (also a wrong lexeme length) is a language error
                    props.add('C02')
                if prop not in props:
                    for p in props:
                        other[p] = other.get(p, 0) + 1
                    continue
                key = role_key(d, mm)
                if key in seen:
                    continue
                seen.add(key)
                ensure_built()
                if prop in ('C14', 'C15'):
                    ok, detail = replay_variant(prop, crate, i, d, mm, widths_fn)
                else:
                    ok, detail = replay(crate, i, d, mm, widths_fn)
                if ok:
                    rep.violation(key, '%s [%s] %s; input %r from rule set %s' % (d.name, '+'.join(mm['aspects']), mm['what'], detail['input_text'], detail['start_rule_set']),
                                  {'property': prop, 'definition': d.lexer_text('L' + str(i)).split('\n'), 'mismatch': mm, 'replay': detail,
                                   'how': 'echo "<driver_line>" | %s  (module %d of the harness crate in %s)' % (crate.drv, i, crate.dir)})
                elif mm.get('post'):
                    # the state after the call differs from the reference's boundary state, but neither the
                    # symbolic follow-up call nor native runs on extended inputs show an observable consequence
                    unobservable.append('%s: %s' % (d.name, mm['what']))
                else:
                    rep.inconc('%s: solver counterexample (%s) did not reproduce natively: %s' % (d.name, mm['what'], detail))
        if len(over) > 0.4 * max(1, len(defs)):
            rep.inconc('%d of %d definitions were not decided within their time budget (machine overloaded?)' % (len(over), len(defs)))
        not_expanded = {defs[i].name: e for i, e in crate.errors.items()}
        for i, e in crate.errors.items():
            d = defs[i]
            if select.expansion_failure_is_violation(prop, d, e):
                rep.violation('expansion ' + select.expansion_key(e), '%s: well-formed definition is not turned into a lexer: %s' % (d.name, e[:300]),
                              {'property': prop, 'definition': d.lexer_text('L').split('\n'), 'error': e})
            else:
                # the property is stated for every well-formed definition; one the macro does not turn into a lexer
                # (every generated definition expands on the repaired tree) leaves it undecided - never a silent pass
                rep.inconc('%s: this well-formed definition of the family is not turned into a lexer (%s), so %s is not decided for it' % (d.name, e[:200], prop))
        cov = {
            'programs': len(defs) - len(crate.errors) - len(over),
            'evaluations': tot['queries'] + tot['paths'],
            'distinct_nontrivial': nontrivial,
            'rule': 'programs: %d generated lexer definitions (curated + seeded random, listed families in lex/select.py); per definition every start rule set x {nothing peeked, one character peeked, done} boundary state; '
                    'inputs (<= %d remaining characters over all of char), start location, error payload and action decisions are solver variables. '
                    'A definition is non-trivial for this property when the vacuity witnesses the property needs were reached (%s)' % (len(defs), N, select.nontrivial_doc(prop)),
            'samples': samples,
            'states': tot['paths'], 'transitions': tot['queries'], 'traces_validated_against_impl': validated,
            'witnesses': covers, 'bounds': {'N_remaining_chars': N, 'variants': [list(v) for v in variants], 'definitions_also_decided_at_N_plus_2': deep},
            'programs_not_expanded': not_expanded,
            'programs_over_time_budget_not_decided': over,
            'internal_state_differences_without_observable_consequence': unobservable[:20],
            'mismatches_attributed_to_other_properties': other,
            'cached_definitions': len(cached),
            'functions_encoded': ['<generated lexer as Iterator>::next', 'generated switch / switch_and_return / semantic-action wrappers / right-context functions',
                                  'lexgen_util::Lexer::{next, peek, backtrack, set_accepting_state, reset_accepting_state, reset_match, match_loc, state, new_from_iter_with_state}'],
            'solver': 'z3 %s' % z3.get_version_string(), 'solver_time_s': round(tot['solver_time'], 1), 'queries_discharged': tot['queries'],
            'encoding': 'MIR of the harness crate (lexer!{} expanded by the proc macro of %s working tree, hash %s) and of lexgen_util, dumped on this run' % (REPO, rh),
        }
        if extra_coverage is not None:
            extra_coverage['lexers'] = cov
            rep.coverage = extra_coverage
        else:
            rep.coverage = cov
        rep.assumptions = list(rep.assumptions) + [
            'programs are enumerated/sampled, not solver-decided; inputs/locations/decisions are decided by z3 for all values within the bound',
            'remaining input per next() call <= %d characters; start Loc fields at least 4(N+1) below the integer limits' % N,
            'unicode-width is environment: uninterpreted function char -> None | Some(0..=2)',
            'std summaries: ' + '; '.join(SM.SUMMARY_DOC),
            'inductive argument: every post-state is checked to be a boundary state again (rule-set entry, empty saved match, match start/end, input position, done flag)',
        ]
    except (Inconclusive, BuildError) as e:
        rep.inconc(str(e)[:2000])


if __name__ == '__main__':
    sys.exit(main(sys.argv[1]))
