"""C18 - the table generator emits exact, maximal, sorted ranges for ANY predicate.

Engine M with an inductive cut point at the head of the generator's loop: the predicate is an
uninterpreted function F: code point -> Bool (all predicates at once), the loop counter is an
arbitrary value, the vector of ranges is abstracted by ghosts (end of the last pushed range; whether
one arbitrary Skolem code point is covered).  z3 discharges, on the real MIR of the function:
  base  - the state at the first arrival at the loop head satisfies the invariant,
  step  - invariant /\ one loop iteration (every path, incl. the `continue` on surrogates) gives the
          invariant again and every pushed range is well-formed and maximal,
  exit  - invariant at loop exit implies the returned table is exact for every scalar value.
No bound on the predicate or on code points.  Failing obligations yield a concrete predicate
(from the model of F) which is replayed against the natively compiled generator.
"""
import os
import re
import sys
import time

import z3

from common import REPO, Report, scratch, write_if_changed, run, dump_mir, BuildError, tier, seed
from mirse.exec import Executor, Program, State, Frame, S, A, E, Ref, FnP, Native, UNIT, Inconclusive, Fork
from mirse import summaries as SM

MAXCP = 0x10FFFF
SLO, SHI = 0xD800, 0xDFFF

F = z3.Function('pred', z3.IntSort(), z3.BoolSort())


def scalar(x):
    return z3.And(x >= 0, x <= MAXCP, z3.Or(x < SLO, x > SHI))


def prev_scalar(x):
    """largest scalar value < x (for x > 0)"""
    return z3.If(z3.And(x > SLO, x <= SHI + 1), z3.IntVal(SLO - 1), x - 1)


def next_scalar(x):
    return z3.If(z3.And(x >= SLO - 1, x < SHI), z3.IntVal(SHI + 1), x + 1)


DRIVER_TAIL = r'''

// ---- appended by /verif (replay driver): predicate given as ranges on the command line ----
static mut VERIF_TABLE: Vec<(u32, u32)> = Vec::new();
fn verif_pred(c: char) -> bool {
    let x = c as u32;
    #[allow(static_mut_refs)]
    unsafe { VERIF_TABLE.iter().any(|(a, b)| *a <= x && x <= *b) }
}
fn main() {
    let args: Vec<String> = std::env::args().collect();
    let mut t = vec![];
    if args.len() > 1 && !args[1].is_empty() {
        for p in args[1].split(',') {
            let ab: Vec<&str> = p.split('-').collect();
            t.push((ab[0].parse::<u32>().unwrap(), ab[1].parse::<u32>().unwrap()));
        }
    }
    #[allow(static_mut_refs)]
    unsafe { VERIF_TABLE = t; }
    let r = generate_char_fn_ranges(verif_pred);
    let s: Vec<String> = r.iter().map(|(a, b)| format!("{}-{}", a, b)).collect();
    println!("{}", s.join(","));
}
'''


def build():
    d = scratch('c18')
    src = os.path.join(d, 'src')
    os.makedirs(os.path.join(src, 'bin'), exist_ok=True)
    gen = os.path.join(REPO, 'crates/char_range_gen/src/main.rs')
    write_if_changed(os.path.join(d, 'Cargo.toml'), '[package]\nname = "c18"\nversion = "0.1.0"\nedition = "2021"\n[dependencies]\nunicode-xid = "0.2.2"\n[workspace]\n')
    import shutil
    shutil.copyfile(os.path.join(REPO, 'Cargo.lock'), os.path.join(d, 'Cargo.lock'))
    write_if_changed(os.path.join(src, 'lib.rs'), '#![allow(dead_code)]\n#[path = "%s"]\npub mod gen;\n' % gen)
    # native replay driver: the generator's source, verbatim from the working tree, with its `main`
    # renamed and a driver appended (the function is private to a binary crate)
    text = open(gen).read()
    text2 = re.sub(r'\bfn main\(\)', 'fn generator_main()', text, count=1)
    write_if_changed(os.path.join(src, 'bin', 'gendrv.rs'), '#![allow(dead_code)]\n' + text2.replace('#![allow(clippy::type_complexity)]', '') + DRIVER_TAIL)
    mir = dump_mir(d)
    code, out, err = run(['cargo', 'build', '--offline', '--release', '--bin', 'gendrv'], cwd=d, timeout=600)
    if code != 0:
        raise BuildError('native generator driver build failed:\n' + err[-3000:])
    return mir, os.path.join(d, 'target', 'release', 'gendrv')


def pred_summary(ex, st, fr, text, args):
    c = args[0]
    x = c.v if not isinstance(c.v, int) else z3.IntVal(c.v)
    st.aux.setdefault('pred_calls', []).append(x)
    return S(1, F(x))


class Gen:
    def __init__(self, prog):
        self.prog = prog
        self.fn = prog.find(None, 'generate_char_fn_ranges') or prog.find('gen', 'generate_char_fn_ranges')
        if self.fn is None:
            raise Inconclusive('generate_char_fn_ranges not found in the MIR dump')
        self.ex = Executor(prog, [(re.compile(r'^verif_pred$'), pred_summary)] + SM.TABLE)
        dbg = self.fn.debug
        for k in ('ranges', 'current_range_start', 'f'):
            if k not in dbg:
                raise Inconclusive('local `%s` not found in the debug info of generate_char_fn_ranges (the function was restructured; the cut-point harness needs to be adapted)' % k)
        self.l_ranges, self.l_crs, self.l_f = dbg['ranges'], dbg['current_range_start'], dbg['f']
        self.head = self.find_loop_head()
        # the iterator local of the cut loop: the operand of the `&mut` whose result is passed to `next`
        self.l_iter = None
        blk = self.fn.blocks[self.head]
        call = [x for x in blk if x[0] == 'call'][0]
        arg = call[3][0][1][0]
        for x in blk:
            if x[0] == 'assign' and x[1] == (arg, ()) and x[2][0] == 'ref':
                self.l_iter = x[2][1][0]
        if self.l_iter is None:
            raise Inconclusive('iterator local of the scan loop not found at the loop head')
        self.ex.cut_points = {(self.fn.name, self.head)}
        self.extra_locals = {}
        self.inclusive = True
        self.END = MAXCP
        self.START = 0
        self.havocked = set()
        self.havoc_names = set()     # debug-named scalar locals found to change inside the scan loop (per context)
        self.havoc_constraints = []

    def find_loop_head(self):
        for bb, ins in self.fn.blocks.items():
            for st in ins:
                if st[0] == 'call' and st[2][0] == 'path' and re.match(r'^<(std::ops::|core::ops::)?Range(Inclusive)?<u32> as (std::iter::)?Iterator>::next$', st[2][1]):
                    return bb
        raise Inconclusive('loop head (a `next` call on a Range / RangeInclusive iterator) not found')

    def run_from_entry(self):
        """base case: from function entry to the first arrival at the loop head"""
        st = State()
        st.aux['cut_armed'] = True
        res = self.ex.call_fn(st, self.fn, [FnP('verif_pred', 'ext')])
        return res

    def head_state(self, i, exhausted, crs):
        """state at the loop head: iterator at i, current_range_start = crs (None | z3 Int), ranges
        abstracted to an empty concrete vector (pushes of this iteration are observed)"""
        st = State()
        fr = self.ex.push_call(st, self.fn, [FnP('verif_pred', 'ext')], None, None, None)
        fr.bb, fr.si = self.head, 0
        fr.locals[self.l_ranges] = Native('vec', ((),))
        fr.locals[self.l_crs] = E('None') if crs is None else E('Some', (S(32, crs),))
        if self.inclusive:
            fr.locals[self.l_iter] = A((S(32, i), S(32, self.END), S(1, 1 if exhausted else 0)))
        else:
            fr.locals[self.l_iter] = A((S(32, self.END if exhausted else i), S(32, self.END)))
        for k, v in self.extra_locals.items():
            fr.locals.setdefault(k, v)
        # user variables other than the four the invariant describes may be carried around the loop:
        # they are havocked (arbitrary value of their type), so the obligations must hold whatever they contain
        for name, loc in self.fn.debug.items():
            if loc in (self.l_ranges, self.l_crs, self.l_iter, self.l_f) or loc not in self.extra_locals:
                continue
            v = self.extra_locals[loc]
            if isinstance(v, S) and name in self.havoc_names:
                if v.w == 1:
                    fr.locals[loc] = S(1, z3.Bool('havoc_%s' % name))
                else:
                    x = z3.Int('havoc_%s' % name)
                    self.havoc_constraints.append(z3.And(x >= 0, x < (1 << v.w)))
                    fr.locals[loc] = S(v.w, x)
                self.havocked.add(name)
            else:
                # not a scalar (the predicate pointer, an outer iterator, ...): kept as it was when the loop was entered;
                # every path back to the loop head is checked to leave it unchanged (main)
                pass
        return st, fr.fid


def inv(i, crs, last_end, cov, cstar, insts):
    """the loop-head invariant; i: next counter value (MAXCP+1 when exhausted); crs: None | Int;
    pointwise parts instantiated at the terms in insts"""
    cs = [i >= 0, i <= MAXCP + 1, last_end >= -1, last_end < i,
          z3.Or(last_end == -1, scalar(last_end))]
    upper = i if crs is None else crs
    if crs is not None:
        cs += [scalar(crs), crs < i, F(crs), last_end < crs,
               z3.Or(crs == 0, z3.Not(F(prev_scalar(crs))))]
    else:
        # the scalar value following the last pushed range was seen and does not satisfy F
        cs.append(z3.Or(last_end == -1, z3.And(next_scalar(last_end) < i, z3.Not(F(next_scalar(last_end))))))
    # coverage ghost of the Skolem point
    cs.append(z3.Implies(cov, cstar <= last_end))
    cs.append(z3.Implies(z3.And(cstar <= last_end, scalar(cstar)), F(cstar) == cov))
    for c in insts:
        cs.append(z3.Implies(z3.And(last_end < c, c < upper, scalar(c)), z3.Not(F(c))))
        if crs is not None:
            cs.append(z3.Implies(z3.And(crs <= c, c < i, scalar(c)), F(c)))
    return z3.And(*cs)


def zi(s):
    return z3.IntVal(s.v) if isinstance(s.v, int) else s.v


def pred_from_model(m, points):
    """a concrete predicate (list of ranges where it is true) agreeing with the model of F at all
    scalar values: the model is a finite list of points plus an `else` value"""
    fi = m[F]
    default = False
    explicit = {}
    if fi is not None:
        try:
            default = z3.is_true(fi.else_value())
        except Exception:
            default = False
        for k in range(fi.num_entries()):
            e = fi.entry(k)
            try:
                explicit[e.arg_value(0).as_long()] = z3.is_true(e.value())
            except Exception:
                pass
    for p in points:
        if p not in explicit:
            try:
                explicit[p] = z3.is_true(m.eval(F(z3.IntVal(p)), model_completion=True))
            except Exception:
                pass
    # when the interpretation is not a plain table (e.g. an if-then-else expression) evaluate F at
    # the interesting points and keep the default elsewhere
    ranges = []
    pts = sorted(p for p in explicit if 0 <= p <= MAXCP and not (SLO <= p <= SHI))
    if default:
        cur = 0
        for p in pts:
            if not explicit[p]:
                if cur <= p - 1:
                    ranges.append((cur, p - 1))
                cur = p + 1
        if cur <= MAXCP:
            ranges.append((cur, MAXCP))
    else:
        for p in pts:
            if explicit[p]:
                if ranges and ranges[-1][1] == p - 1:
                    ranges[-1] = (ranges[-1][0], p)
                else:
                    ranges.append((p, p))
    return ranges


def spec_table(ranges):
    """the unique correct output for the predicate `true exactly on ranges` (scalar values only)"""
    vals = []
    for a, b in ranges:
        vals.append((a, b))
    # normalise: drop surrogates at the ends, merge across the surrogate gap
    segs = []
    for a, b in sorted(vals):
        if SLO <= a <= SHI:
            a = SHI + 1
        if SLO <= b <= SHI:
            b = SLO - 1
        if a > b:
            continue
        if a < SLO and b > SHI:
            segs.append((a, b))
        else:
            segs.append((a, b))
    out = []
    for a, b in segs:
        if out and (a <= out[-1][1] + 1 or (out[-1][1] == SLO - 1 and a == SHI + 1)):
            out[-1] = (out[-1][0], max(out[-1][1], b))
        else:
            out.append((a, b))
    return out


def native_table(drv, ranges):
    arg = ','.join('%d-%d' % r for r in ranges)
    code, out, err = run([drv, arg], timeout=120)
    if code != 0:
        return None
    out = out.strip()
    if not out:
        return []
    return [tuple(int(x) for x in p.split('-')) for p in out.split(',')]


def main():
    rep = Report('C18')
    stats = {'paths': 0, 'vcs': 0, 'failed': 0}
    samples = []
    try:
        mir, drv = build()
        prog = Program()
        prog.add_dump(mir)
        g = Gen(prog)
        ex = g.ex
        cstar = z3.Int('cstar')
        cfresh = z3.Int('cfresh')
        failures = []

        def vc(name, hyps, goal, points, st_pc=()):
            """prove hyps => goal; on failure build a concrete predicate from the model"""
            stats['vcs'] += 1
            m = ex.model(list(st_pc) + list(hyps) + [z3.Not(goal)])
            if m is None:
                return True
            stats['failed'] += 1
            ev = lambda t: m.eval(t, model_completion=True)
            pts = []
            for p in points:
                try:
                    pts.append(ev(p).as_long())
                except Exception:
                    pass
            failures.append((name, pred_from_model(m, pts + [0, 1, SLO - 1, SHI + 1, MAXCP - 1, MAXCP]), {str(p): str(ev(p)) for p in points}))
            return False

        contexts = {}
        order = []

        def add_context(it, fr):
            key = (it.f[0].v, it.f[1].v, len(it.f) == 3)
            if key not in contexts:
                if len(contexts) >= 6:
                    raise Inconclusive('the scan loop is entered in more than 6 different contexts')
                contexts[key] = {'start': key[0], 'end': key[1], 'inclusive': key[2],
                                 'extra': {k: v for k, v in fr.locals.items() if k not in (g.l_iter, g.l_crs, g.l_ranges)}}
                order.append(key)

        # ---------------- base
        ex.reset_solver()
        ex.solver.add(scalar(cstar))
        base = g.run_from_entry()
        nbase = 0
        for kind, st, val in base:
            stats['paths'] += 1
            if kind != 'cut':
                rep.inconc('function entry did not reach the loop head: %s %r' % (kind, val))
                continue
            nbase += 1
            fr = st.frames[st.stack[-1]]
            it = fr.locals[g.l_iter]
            crs = fr.locals[g.l_crs]
            rg = fr.locals[g.l_ranges]
            shape_ok = isinstance(it, A) and len(it.f) in (2, 3) and all(isinstance(x, S) and x.conc() for x in it.f)
            if shape_ok:
                g.inclusive = len(it.f) == 3
                g.END = it.f[1].v
            ok = (shape_ok and isinstance(crs, E) and crs.v == 'None' and isinstance(rg, Native) and rg.p[0] == () and
                  it.f[0].v == 0 and (not g.inclusive or it.f[2].v == 0))
            stats['vcs'] += 1
            if not ok:
                rep.violation('base initial-state', 'state at the first loop-head arrival is not (i=0, no open range, empty table): %r %r %r' % (it, crs, rg), {'it': repr(it)})
            # remember the other live locals of the head state (e.g. the predicate pointer copies)
            if shape_ok:
                add_context(it, fr)
        samples.append({'obligation': 'base', 'paths': nbase})

        # ---------------- step and exit, for current_range_start = None / Some(s), for every context in which the scan
        # loop is entered (one for the plain scan; one per block when the scan is split into several loops over blocks)
        ci = 0
        while ci < len(order):
          ctx = contexts[order[ci]]
          ci += 1
          g.inclusive, g.END, g.START, g.extra_locals = ctx['inclusive'], ctx['end'], ctx['start'], ctx['extra']
          # which user variables are carried around the loop?  One iteration is explored from an arbitrary (i, open range)
          # with the other variables at their value on loop entry; a variable that some path changes is havocked from
          # then on, until no further variable changes (a variable no path changes keeps its entry value by induction)
          g.havoc_names = set()
          for _round in range(6):
              changed = set()
              for crs_kind in ('none', 'some'):
                  ex.reset_solver()
                  i = z3.Int('i')
                  s = z3.Int('s')
                  exit_i = g.END + 1 if g.inclusive else g.END
                  ex.solver.add(i >= g.START, i <= exit_i - 1, s >= 0, s < i)
                  g.havoc_constraints = []
                  st, fid = g.head_state(i, False, None if crs_kind == 'none' else s)
                  if g.havoc_constraints:
                      ex.solver.add(*g.havoc_constraints)
                  st.aux['cut_armed'] = False
                  for kind, s2, val in ex.run(st, base=0):
                      if kind != 'cut':
                          continue
                      fr2 = s2.frames[s2.stack[-1]]
                      for name_, loc_ in g.fn.debug.items():
                          if loc_ in (g.l_ranges, g.l_crs, g.l_iter, g.l_f) or loc_ not in g.extra_locals or name_ in g.havoc_names:
                              continue
                          v_ = g.extra_locals[loc_]
                          if isinstance(v_, S) and repr(fr2.locals.get(loc_)) != repr(v_):
                              changed.add(name_)
              if not changed:
                  break
              g.havoc_names |= changed
          g.havoc_constraints = []
          for crs_kind in ('none', 'some'):
            for exhausted in (False, True):
                ex.reset_solver()
                i = z3.Int('i')
                s = z3.Int('s')
                last_end = z3.Int('last_end')
                cov = z3.Bool('cov')
                crs = None if crs_kind == 'none' else s
                exit_i = g.END + 1 if g.inclusive else g.END
                i_inv = z3.IntVal(exit_i) if exhausted else i
                hyp_terms = [cstar, cfresh, prev_scalar(i_inv), i_inv - 1]
                hyp = [scalar(cstar), scalar(cfresh), i >= g.START, i <= exit_i - 1, s >= 0, s <= MAXCP,
                       inv(i_inv, crs, last_end, cov, cstar, hyp_terms)]
                ex.solver.add(*hyp)
                st, fid = g.head_state(i if not exhausted else z3.IntVal(g.END), exhausted, crs)
                if g.havoc_constraints:
                    ex.solver.add(*g.havoc_constraints)
                st.aux['cut_armed'] = False
                res = ex.run(st, base=0)
                npaths = 0
                for kind, s2, val in res:
                    stats['paths'] += 1
                    npaths += 1
                    pts = [i, s, last_end, cstar, cfresh]
                    if kind == 'panic':
                        m = ex.model(s2.pc)
                        if m is not None:
                            stats['vcs'] += 1
                            stats['failed'] += 1
                            failures.append(('panic %s' % val, pred_from_model(m, [m.eval(i, model_completion=True).as_long()] + [0, SLO - 1, SHI + 1, MAXCP]), {}))
                        continue
                    if kind == 'cut':
                        fr = s2.frames[s2.stack[-1]]
                        pushed = fr.locals[g.l_ranges].p[0]
                        crs2v = fr.locals[g.l_crs]
                        it2 = fr.locals[g.l_iter]
                        if exhausted:
                            # the loop was left and entered again with a fresh iterator (scan split into blocks)
                            if not (isinstance(it2, A) and len(it2.f) in (2, 3) and all(isinstance(x, S) and x.conc() for x in it2.f)) or (len(it2.f) == 3 and it2.f[2].v):
                                raise Inconclusive('the scan loop is re-entered with an iterator the harness cannot describe: %r' % (it2,))
                            i2 = z3.IntVal(it2.f[0].v)
                            add_context(it2, fr)
                        else:
                            if len(it2.f) == 3:
                                i2 = z3.IntVal(exit_i) if (it2.f[2].conc() and it2.f[2].v) else zi(it2.f[0])
                            else:
                                i2 = zi(it2.f[0])
                            for k_, v_ in g.extra_locals.items():
                                name_ = [n for n, l in g.fn.debug.items() if l == k_]
                                if name_ and name_[0] not in g.havocked and not isinstance(v_, S) and repr(fr.locals.get(k_)) != repr(v_):
                                    raise Inconclusive('loop-carried variable `%s` changes inside the scan loop and is not described by the invariant' % name_[0])
                    else:
                        # return: loop exit
                        pushed = val.p[0]
                        crs2v = None
                        i2 = None
                    le, cv = last_end, cov
                    okp = True
                    for tup in pushed:
                        a, b = zi(tup.f[0]), zi(tup.f[1])
                        okp &= vc('pushed range has scalar end points and start <= end', [], z3.And(scalar(a), scalar(b), a <= b), pts + [a, b], s2.pc)
                        okp &= vc('pushed range starts after the previous one', [], a > le, pts + [a, b], s2.pc)
                        okp &= vc('pushed range is maximal (not extensible to either side)', [],
                                  z3.And(z3.Or(a == 0, z3.Not(F(prev_scalar(a)))), z3.Or(b == MAXCP, z3.Not(F(next_scalar(b))))), pts + [a, b], s2.pc)
                        okp &= vc('every scalar value inside the pushed range satisfies the predicate', [],
                                  z3.And(z3.Implies(z3.And(a <= cstar, cstar <= b), F(cstar)), z3.Implies(z3.And(a <= cfresh, cfresh <= b, scalar(cfresh)), F(cfresh))), pts + [a, b], s2.pc)
                        cv = z3.Or(cv, z3.And(a <= cstar, cstar <= b))
                        le = b
                    if kind == 'cut':
                        crs2 = None if (isinstance(crs2v, E) and crs2v.v == 'None') else zi(crs2v.f[0])
                        vc('loop invariant is preserved (%s open range, %d pushes)' % (crs_kind, len(pushed)), [],
                           inv(i2, crs2, le, cv, cstar, [cstar, cfresh]), pts, s2.pc)
                    else:
                        # exit: the table is exact at the Skolem point
                        vc('returned table covers exactly the scalar values satisfying the predicate', [],
                           F(cstar) == cv, pts, s2.pc)
                samples.append({'obligation': 'step/exit from loop head', 'scan_block': [g.START, g.END], 'open_range': crs_kind, 'iterator_exhausted': exhausted, 'paths': npaths})
        # ---------------- failures: replay
        seen = set()
        unconfirmed = []
        for name, pred, vals in failures:
            key = re.sub(r'\d+', '', name)[:60]
            nat = native_table(drv, pred)
            want = spec_table(pred)
            if nat is None:
                if ('panic', key) not in seen:
                    seen.add(('panic', key))
                    rep.violation('native-panic ' + '-'.join(key.split()[:4]), 'generator panics natively for the predicate true on %s' % (pred[:6],), {'predicate_true_on': pred, 'vc': name})
                continue
            if nat != want:
                role = classify(pred, nat, want)
                if role in seen:
                    continue
                seen.add(role)
                rep.violation(role, 'obligation "%s" fails; predicate true exactly on %s: generator returns %s, correct table %s' % (name, pred[:6], nat[:6], want[:6]),
                              {'property': 'C18', 'failed_obligation': name, 'predicate_true_on': pred, 'native_output': nat, 'expected': want, 'model': vals,
                               'replay': '%s %s' % (drv, ','.join('%d-%d' % r for r in pred))})
            else:
                unconfirmed.append((name, pred))
        if unconfirmed and not rep.violations:
            # the failing obligation may come from a loop-head state the model's predicate does not reach; look
            # for a concrete witness among predicates defined by a few boundaries (the family named in the property)
            found = boundary_search(drv)
            if found is not None:
                pred, nat, want = found
                rep.violation(classify(pred, nat, want), 'obligation "%s" fails; predicate true exactly on %s: generator returns %s, correct table %s'
                              % (unconfirmed[0][0], pred[:6], nat[:6], want[:6]),
                              {'property': 'C18', 'failed_obligation': unconfirmed[0][0], 'predicate_true_on': pred, 'native_output': nat, 'expected': want,
                               'replay': '%s %s' % (drv, ','.join('%d-%d' % r for r in pred))})
            else:
                for name, pred in unconfirmed[:3]:
                    rep.inconc('obligation "%s" failed but the native generator is correct on the derived predicate %s and on all boundary-defined predicates (invariant too weak or encoding wrong)' % (name, pred[:6]))
        rep.coverage = {
            'evaluations': stats['vcs'] + ex.queries, 'distinct_nontrivial': stats['paths'],
            'obligations': stats['vcs'], 'discharged': stats['vcs'] - stats['failed'],
            'rule': 'one case = one control-flow path of the real MIR of generate_char_fn_ranges between two arrivals at the loop head (or to return), '
                    'from an ARBITRARY loop-head state satisfying the invariant, with the predicate an uninterpreted function; each path yields verification conditions discharged by z3',
            'samples': samples, 'states': stats['paths'], 'transitions': ex.queries, 'traces_validated_against_impl': len(failures),
            'functions_encoded': ['char_range_gen::generate_char_fn_ranges'],
            'bounds': 'none on the predicate or the code points (inductive cut point at the loop head)',
            'havocked_loop_variables': sorted(g.havocked),
            'solver': 'z3 %s' % z3.get_version_string(), 'solver_time_s': round(ex.solver_time, 2), 'queries_discharged': ex.queries,
            'encoding': 'MIR of %s/crates/char_range_gen/src/main.rs dumped on this run' % REPO,
        }
        rep.assumptions = [
            'Vec<(u32,u32)> abstracted by ghosts (end of last pushed range, coverage of one Skolem code point); the function only pushes to and returns the vector',
            'std summaries: ' + '; '.join(SM.SUMMARY_DOC),
            'the 20 real predicates and all boundary-defined predicates are instances of the uninterpreted F',
        ]
    except (Inconclusive, BuildError) as e:
        rep.inconc(str(e)[:2000])
    return rep.finish()


def boundary_search(drv):
    """predicates that are unions of up to 3 ranges with end points at 0, around the surrogate gap and at char::MAX"""
    import itertools
    pts = [0, 1, 2, SLO - 2, SLO - 1, SHI + 1, SHI + 2, SHI + 3, 0xF8FF, MAXCP - 2, MAXCP - 1, MAXCP]
    ranges = [(a, b) for a in pts for b in pts if a <= b]
    cands = [[r] for r in ranges]
    for r1, r2 in itertools.combinations(ranges, 2):
        if r1[1] + 1 < r2[0] and not (r1[1] == SLO - 1 and r2[0] == SHI + 1):
            cands.append([r1, r2])
    for pred in cands:
        nat = native_table(drv, pred)
        want = spec_table(pred)
        if nat != want:
            return pred, nat, want
    return None


def classify(pred, nat, want):
    if any(SLO <= b <= SHI or SLO <= a <= SHI for a, b in nat):
        return 'surrogate-end-point'
    if want and want[-1][1] == MAXCP and (not nat or nat[-1][1] != MAXCP):
        return 'range-reaching-char-max-dropped'
    return 'table-differs'


if __name__ == '__main__':
    sys.exit(main())
