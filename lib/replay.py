"""./check <id> --replay <file>: re-run a recorded counterexample against the natively compiled real
code of /repo's current working tree and say whether it still reproduces (exit 1) or not (exit 0)."""
import json
import os
import random
import sys

from common import REPO, scratch, run, seed, tier


def main():
    prop, path = sys.argv[1], sys.argv[2]
    r = json.load(open(path))
    print(json.dumps({k: v for k, v in r.items() if k not in ('mismatch',)}, indent=1)[:6000])
    if prop == 'C11':
        import c11
        mir, drv = c11.build()
        ok, detail = c11.replay_native(drv, r['op'], [tuple(x) for x in r['a']], tuple(r['arg']) if r['op'] == 'insert' else [tuple(x) for x in r['arg']])
        print('REPRODUCES' if ok else 'DOES NOT REPRODUCE', detail)
        return 1 if ok else 0
    if prop == 'C18':
        import c18
        mir, drv = c18.build()
        pred = [tuple(x) for x in r['predicate_true_on']]
        nat = c18.native_table(drv, pred)
        want = c18.spec_table(pred)
        print('native', nat[:10] if nat else nat, 'expected', want[:10])
        return 1 if nat != want else 0
    if prop == 'C13' and 'builtin' in r and 'definition' not in r:
        import c13
        d = c13.build((0, 0, 0))
        uv, tables = c13.native_scan(d)
        t = tables.get(r['builtin'])
        print('native scan', t)
        return 1 if t and t['mismatches'] else 0
    # lexer properties: rebuild the single definition and run the recorded driver line
    from lex import crate as C, select, spec as SP, regex as R
    rng = random.Random(seed() * 7919 + int(prop[1:]))
    defs, N, variants = select.select(prop, tier() == 'thorough', rng)
    text = '\n'.join(r['definition'])
    idx = None
    for i, d in enumerate(defs):
        if '\n'.join(d.lexer_text('L%d' % i).split('\n')) == text:
            idx = i
    if idx is None:
        print('the definition of this replay file is not in the current family of %s (seed/tier differ); stored native and reference output above' % prop)
        return 2
    cr = C.LexCrate([defs[idx]], 'replay-' + prop)
    cr.write()
    drv, err = cr.build_native()
    if drv is None:
        print('definition does not build any more:', (err or '')[-1500:])
        return 1
    rep = r['replay']
    if 'driver_line' not in rep:
        print('stored native outputs of the compared variants are shown above; re-run ./check %s to reproduce' % prop)
        return 2
    line = rep['driver_line'].split(' ')
    line[0] = '0'
    out = cr.native_run([' '.join(line)])[0]
    if 'reference' in rep:
        ref = '|'.join(rep['reference'])
        print('native now :', out)
        print('reference  :', ref)
        return 1 if out != ref else 0
    print('native now :', out)
    return 0


if __name__ == '__main__':
    sys.exit(main())
