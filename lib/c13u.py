"""C13, tables behind `core::unicode`'s skip-search predicates (alphabetic, alphanumeric): decided with engine M.

Kani/CBMC cannot unwind `core::unicode::unicode_data::skip_search` far enough for these two classes (see DESIGN.md).
Engine M executes it path by path instead: the predicate code (`char::is_alphabetic` / `is_alphanumeric` from
`core/src/char/methods.rs`, `skip_search`, `ShortOffsetRunHeader` and the `alphabetic` / `n` modules with their
SHORT_OFFSET_RUNS / OFFSETS tables from `core/src/unicode/unicode_data.rs`) is copied *verbatim at run time* from
the rust-src component of the installed nightly toolchain into a scratch crate (the only edit: the core-internal
`crate::intrinsics::assume` becomes `core::hint::assert_unchecked`, and `unicode::Alphabetic(self)`/`unicode::N(self)`
are pointed at the copied modules), compiled to MIR together with the real `char_ranges.rs`, and explored for one
symbolic `c: char`.  Every path ends with a concrete boolean; z3 decides per path whether some `c` of the path has a
different membership in the table of `char_ranges.rs` (the static is evaluated from its MIR initialiser).
The Unicode version constant of that source must equal the one of the repository's toolchain (checked natively);
a counterexample is confirmed by the native exhaustive scan under the repository's toolchain before it is reported."""
import os
import re
import subprocess
import time

import z3

from common import REPO, scratch, write_if_changed, dump_mir, BuildError
from mirse.exec import Program, Executor, State, S, A, Inconclusive
from mirse import summaries as SM


def _block(text, start_pat):
    m = re.search(start_pat, text, re.M)
    if not m:
        raise BuildError('rust-src: pattern %r not found' % start_pat)
    i = text.index('{', m.start())
    depth = 0
    j = i
    while True:
        ch = text[j]
        if ch == '{':
            depth += 1
        elif ch == '}':
            depth -= 1
            if depth == 0:
                break
        j += 1
    return text[m.start():j + 1]


def rust_src():
    sr = subprocess.check_output(['rustc', '+nightly', '--print', 'sysroot']).decode().strip()
    base = os.path.join(sr, 'lib/rustlib/src/rust/library/core/src')
    if not os.path.isfile(os.path.join(base, 'unicode/unicode_data.rs')):
        raise BuildError('rust-src component of the nightly toolchain not found')
    return base


def make_crate():
    base = rust_src()
    src = open(os.path.join(base, 'unicode/unicode_data.rs')).read()
    i = src.index('#[repr(transparent)]\nstruct ShortOffsetRunHeader')
    j = src.index('impl ShortOffsetRunHeader')
    hdr = src[i:j]
    impl = _block(src, r'^impl ShortOffsetRunHeader \{')
    ss = _block(src, r'^#\[inline\(always\)\]\nunsafe fn skip_search')
    alpha = _block(src, r'^pub mod alphabetic \{')
    n = _block(src, r'^pub mod n \{')
    uv = tuple(int(x) for x in re.search(r'pub const UNICODE_VERSION: \(u8, u8, u8\) = \((\d+), (\d+), (\d+)\);', src).groups())
    body = '\n'.join([hdr, impl, ss, alpha, n])
    if 'crate::intrinsics::assume(' not in body:
        raise BuildError('rust-src: skip_search has changed shape (no intrinsics::assume)')
    body = body.replace('crate::intrinsics::assume(', 'core::hint::assert_unchecked(')
    meth = open(os.path.join(base, 'char/methods.rs')).read()

    def method(name):
        b = _block(meth, r'^    pub (const )?fn %s\(self\) -> bool \{' % name)
        b = b[b.index('{'):]
        if 'unicode::' not in b:
            raise BuildError('rust-src: %s has changed shape' % name)
        b = b.replace('unicode::Alphabetic(self)', 'ud::alphabetic::lookup(self_)').replace('unicode::N(self)', 'ud::n::lookup(self_)')
        if 'unicode::' in b:
            raise BuildError('rust-src: %s uses a predicate that is not copied' % name)
        b = re.sub(r'\bself\b', 'self_', b)
        return 'pub fn %s(self_: char) -> bool %s' % (name, b)
    lib = '''#![allow(dead_code, unused_unsafe)]
#[path = "%s/crates/lexgen/src/char_ranges.rs"]
pub mod char_ranges;
pub mod ud {
%s
}
%s
%s
''' % (REPO, body, method('is_alphabetic'), method('is_alphanumeric'))
    d = scratch('c13u')
    os.makedirs(os.path.join(d, 'src'), exist_ok=True)
    write_if_changed(os.path.join(d, 'Cargo.toml'), '[package]\nname = "c13u"\nversion = "0.0.0"\nedition = "2021"\n[workspace]\n')
    write_if_changed(os.path.join(d, 'src/lib.rs'), lib)
    return d, uv


TABLES = [('alphabetic', 'ALPHABETIC', 'is_alphabetic'), ('alphanumeric', 'ALPHANUMERIC', 'is_alphanumeric')]


def decide(deadline_s=600):
    """-> (unicode version of the copied predicate source, {builtin: result dict})
    result: {'status': 'ok'|'fail'|'inconclusive', 'paths', 'queries', 'seconds', 'witness_in', 'witness_out', 'cex': code point or None, 'detail'}"""
    d, uv = make_crate()
    mir = dump_mir(d)
    prog = Program()
    prog.add_dump(mir)
    out = {}
    for name, table, fn in TABLES:
        t0 = time.time()
        r = {'status': 'inconclusive', 'paths': 0, 'queries': 0, 'cex': None, 'detail': ''}
        out[name] = r
        try:
            ex = Executor(prog, SM.TABLE, max_steps=5000000)
            ex.deadline = time.process_time() + deadline_s
            stat = [x for x in prog.fns if x.kind == 'const' and (x.name == table or x.name.endswith('::' + table))]
            if len(stat) != 1:
                raise Inconclusive('table %s not found in the dump' % table)
            tv = ex.eval_const_fn(stat[0], table)
            ranges = []
            for e in tv.f:
                a, b = e.f
                if not (a.conc() and b.conc()):
                    raise Inconclusive('table entry is not concrete')
                ranges.append((a.v, b.v))
            f = [x for x in prog.fns if x.name == fn]
            if len(f) != 1:
                raise Inconclusive('predicate %s not found in the dump' % fn)
            c = z3.Int('c')
            member = z3.Or([z3.And(c >= a, c <= b) if a != b else c == a for a, b in ranges]) if ranges else z3.BoolVal(False)
            st = State()
            st.pc = [c >= 0, c <= 0x10FFFF, z3.Or(c < 0xD800, c > 0xDFFF)]
            nin = nout = 0
            bad = None
            for kind, s2, v in ex.call_fn(st, f[0], [S(32, c)]):
                r['paths'] += 1
                if kind != 'return':
                    raise Inconclusive('the predicate panics on some character: %s' % (v,))
                if not isinstance(v, S) or not v.conc():
                    raise Inconclusive('predicate result is not concrete on a path')
                want = bool(v.v)
                nin += want
                nout += (not want)
                m = ex.model(s2.pc + [member != z3.BoolVal(want)])
                if m is not None and bad is None:
                    bad = m.eval(c, model_completion=True).as_long()
            r['queries'] = ex.queries
            r['witness_in'], r['witness_out'] = nin, nout
            r['ranges'] = len(ranges)
            if bad is not None:
                r['status'] = 'fail'
                r['cex'] = bad
                r['detail'] = 'U+%04X: table %s and %s disagree' % (bad, table, fn)
            elif nin == 0 or nout == 0:
                r['detail'] = 'vacuous: no path with result %s' % ('true' if nin == 0 else 'false')
            else:
                r['status'] = 'ok'
        except Inconclusive as e:
            r['detail'] = str(e)[:500]
        r['seconds'] = round(time.time() - t0, 1)
    return uv, out


if __name__ == '__main__':
    import json
    import sys
    try:
        uv, res = decide()
        print('C13U ' + json.dumps({'uv': list(uv), 'tables': res}))
    except BuildError as e:
        print('C13U ' + json.dumps({'uv': None, 'tables': {}, 'error': str(e)[:500]}))
    sys.exit(0)
