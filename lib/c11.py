"""C11 - character-class algebra (RangeMap::insert / insert_ranges / remove_ranges, Range::contains).

Engine M: the MIR of the real functions is executed symbolically from an *arbitrary valid map*
(inductive step): the pre-state has K ranges with symbolic end points and values constrained only
by the representation invariant, the argument is arbitrary; z3 decides every path.  Post-conditions
per path: no panic, the invariant holds again, and at an arbitrary (Skolem) code point the result
is the union / difference of the operands.
"""
import json
import os
import random
import sys
import time

import z3

from common import (REPO, Report, scratch, write_if_changed, run, dump_mir, BuildError, tier, seed)
from mirse.exec import (Executor, Program, State, S, A, E, Ref, FnP, Native, UNIT, Inconclusive, bv)
from mirse import summaries as SM

MAXCP = 0x10FFFF

DRIVER = r'''
use c11::range_map::{Range, RangeMap};
use std::io::BufRead;

fn parse_map(s: &str) -> RangeMap<u8> {
    let mut v = vec![];
    for part in s.split(';') {
        let t: Vec<&str> = part.split_whitespace().collect();
        if t.len() == 3 {
            v.push(Range { start: t[0].parse().unwrap(), end: t[1].parse().unwrap(), value: t[2].parse().unwrap() });
        }
    }
    // build without the debug-only sortedness assertion getting in the way of replaying
    // counterexamples: the inputs are checked by the caller
    let mut m = RangeMap::new();
    m.insert_ranges(std::iter::empty(), |_: &mut u8, _| ());
    let _ = &m;
    RangeMap::from_non_overlapping_sorted_ranges(v)
}

fn show(m: &RangeMap<u8>) -> String {
    m.iter().map(|r| format!("{} {} {}", r.start, r.end, r.value)).collect::<Vec<_>>().join(";")
}

fn main() {
    std::panic::set_hook(Box::new(|_| {}));
    let stdin = std::io::stdin();
    for line in stdin.lock().lines() {
        let line = line.unwrap();
        let parts: Vec<&str> = line.split('|').collect();
        let head: Vec<&str> = parts[0].split_whitespace().collect();
        let res = std::panic::catch_unwind(|| {
            let mut a = parse_map(parts[1]);
            match head[0] {
                "insert" => {
                    a.insert(head[1].parse().unwrap(), head[2].parse().unwrap(), head[3].parse::<u8>().unwrap(), |x: &mut u8, y: u8| *x |= y);
                }
                "insert_ranges" => {
                    let b = parse_map(parts[2]);
                    a.insert_ranges(b.into_iter(), |x: &mut u8, y: u8| *x |= y);
                }
                "remove_ranges" => {
                    let b = parse_map(parts[2]);
                    a.remove_ranges(&b);
                }
                "contains" => {
                    let r = a.iter().next().unwrap();
                    let c = char::from_u32(head[1].parse().unwrap()).unwrap();
                    return format!("{}", r.contains(c));
                }
                _ => panic!("op"),
            }
            show(&a)
        });
        match res {
            Ok(s) => println!("OK {}", s),
            Err(_) => println!("PANIC"),
        }
    }
}
'''


def build():
    d = scratch('c11')
    src = os.path.join(d, 'src')
    os.makedirs(os.path.join(src, 'bin'), exist_ok=True)
    write_if_changed(os.path.join(d, 'Cargo.toml'), '[package]\nname = "c11"\nversion = "0.1.0"\nedition = "2021"\n[dependencies]\n[workspace]\n')
    link = os.path.join(src, 'range_map.rs')
    target = os.path.join(REPO, 'crates/lexgen/src/range_map.rs')
    if os.path.islink(link) or os.path.exists(link):
        os.remove(link)
    os.symlink(target, link)
    write_if_changed(os.path.join(src, 'lib.rs'), '#![allow(dead_code)]\npub mod range_map;\n')
    write_if_changed(os.path.join(src, 'bin', 'rmdrv.rs'), DRIVER)
    mir = dump_mir(d)
    code, out, err = run(['cargo', 'build', '--offline', '--bin', 'rmdrv'], cwd=d, timeout=600)
    if code != 0:
        raise BuildError('native driver build failed:\n' + err[-3000:])
    return mir, os.path.join(d, 'target', 'debug', 'rmdrv')


# ------------------------------------------------------------------------------------------------

def merge_summary(ex, st, fr, text, args):
    """the `merge` closure handed to insert/insert_ranges by the harness: *a |= b"""
    a = ex.deref(st, args[0])
    b = args[1]
    ex.assign_ref(st, args[0], ex.binop(st, 'BitOr', a, b))
    return UNIT


def make_executor(prog):
    import re
    table = [(re.compile(r'^verif_merge$'), merge_summary)] + SM.TABLE
    ex = Executor(prog, table)
    return ex


def fmt_map(m):
    return ';'.join('%d %d %d' % t for t in m)


def conc_map(m):
    return A((Native('vec', (tuple(A((S(32, s), S(32, e), S(8, v))) for s, e, v in m),)),))


def read_map(v):
    return [(r.f[0], r.f[1], r.f[2]) for r in v.f[0].p[0]]


def run_op(ex, op, amap, arg):
    """amap: RangeMap value; arg: for insert (S start, S end, S val); else RangeMap value.
    -> list of (kind, state, post_map_value|msg)"""
    st = State()
    st.root()['a'] = amap
    merge = FnP('verif_merge', 'ext')
    if op == 'insert':
        res = ex.call_fn(st, ex.prog.find('RangeMap', 'insert'), [Ref(0, 'a'), arg[0], arg[1], arg[2], merge])
    elif op == 'insert_ranges':
        it = Native('vecit', (arg.f[0].p[0], 0))
        res = ex.call_fn(st, ex.prog.find('RangeMap', 'insert_ranges'), [Ref(0, 'a'), it, merge])
    elif op == 'remove_ranges':
        st.root()['b'] = arg
        res = ex.call_fn(st, ex.prog.find('RangeMap', 'remove_ranges'), [Ref(0, 'a'), Ref(0, 'b')])
    else:
        raise ValueError(op)
    out = []
    for kind, s2, val in res:
        if kind == 'return':
            out.append((kind, s2, s2.root()['a']))
        else:
            out.append((kind, s2, val))
    return out


def native(drv, lines):
    code, out, err = run([drv], input='\n'.join(lines) + '\n', timeout=120)
    return out.strip().split('\n')


def line_for(op, amap, arg):
    if op == 'insert':
        return 'insert %d %d %d|%s' % (arg[0], arg[1], arg[2], fmt_map(amap))
    return '%s|%s|%s' % (op, fmt_map(amap), fmt_map(arg))


def rand_map(rng, n, hi):
    pts = sorted(rng.sample(range(hi), 2 * n))
    return [(pts[2 * i], pts[2 * i + 1], rng.randrange(1, 256)) for i in range(n)]


def validate_translator(ex, drv, rng, count):
    """Serval-style validation: concrete cases through native code and through the MIR executor"""
    cases = []
    # shapes of the repository's own unit tests (range_map.rs tests, tests.rs diff_*)
    fixed = [
        ('insert', [(10, 20, 1)], (100, 200, 2)), ('insert', [(100, 200, 1)], (10, 20, 2)),
        ('insert', [(10, 20, 1)], (15, 25, 2)), ('insert', [(15, 25, 1)], (10, 20, 2)),
        ('insert', [(10, 20, 1)], (10, 20, 2)), ('insert', [(10, 20, 1), (21, 30, 2)], (5, 35, 4)),
        ('insert', [(10, 20, 1)], (12, 18, 2)), ('insert', [(0, 0, 1), (2, 2, 1), (4, 4, 1)], (0, 4, 2)),
        ('remove_ranges', [(10, 20, 1)], [(30, 40, 0)]), ('remove_ranges', [(10, 20, 1)], [(5, 15, 0)]),
        ('remove_ranges', [(10, 20, 1)], [(12, 18, 0)]), ('remove_ranges', [(10, 20, 1)], [(15, 25, 0)]),
        ('remove_ranges', [(0, 0x10FFFF, 1)], [(97, 122, 0)]),
        ('insert_ranges', [(10, 20, 1), (30, 40, 2)], [(15, 35, 4)]),
        ('insert_ranges', [], [(1, 2, 3)]), ('insert_ranges', [(1, 2, 3)], []),
    ]
    for c in fixed:
        cases.append(c)
    for _ in range(count):
        op = rng.choice(['insert', 'insert_ranges', 'remove_ranges'])
        hi = rng.choice([12, 40, MAXCP + 1])
        a = rand_map(rng, rng.randrange(0, 4), hi)
        if op == 'insert':
            s = rng.randrange(hi)
            e = rng.randrange(s, hi)
            cases.append((op, a, (s, e, rng.randrange(1, 256))))
        else:
            cases.append((op, a, rand_map(rng, rng.randrange(0, 4), hi)))
    lines = [line_for(op, a, arg) for op, a, arg in cases]
    outs = native(drv, lines)
    if len(outs) != len(cases):
        raise Inconclusive('native driver produced %d lines for %d cases' % (len(outs), len(cases)))
    bad = []
    for (op, a, arg), nat in zip(cases, outs):
        if op == 'insert':
            argv = (S(32, arg[0]), S(32, arg[1]), S(8, arg[2]))
        else:
            argv = conc_map(arg)
        res = run_op(ex, op, conc_map(a), argv)
        if len(res) != 1:
            bad.append((op, a, arg, 'executor: %d paths on concrete input' % len(res)))
            continue
        kind, _, val = res[0]
        mine = 'PANIC' if kind == 'panic' else 'OK ' + fmt_map([(s.v, e.v, v.v) for s, e, v in read_map(val)])
        if mine.strip() != nat.strip():
            bad.append((op, a, arg, 'native=%r executor=%r' % (nat, mine)))
    return len(cases), bad


# ------------------------------------------------------------------------------------------------
# symbolic step

def sym_map(prefix, n, base, with_val=True):
    elems = []
    prev = None
    names = []
    for i in range(n):
        s = z3.Int('%s_s%d' % (prefix, i))
        e = z3.Int('%s_e%d' % (prefix, i))
        v = z3.BitVec('%s_v%d' % (prefix, i), 8) if with_val else None
        base += [s >= 0, s <= e, e <= MAXCP]
        if prev is not None:
            base.append(prev < s)
        prev = e
        elems.append(A((S(32, s), S(32, e), S(8, v) if with_val else UNIT)))
        names.append((s, e, v))
    return A((Native('vec', (tuple(elems),)),)), names


def z(x, w):
    if w == 8:
        return bv(w, x.v)
    return x.v if not isinstance(x.v, int) else z3.IntVal(x.v)


def member(m, c):
    """m: list of (S start, S end, S|UNIT val); c: z3 bv32 -> (member bool, value bv8)"""
    mem = z3.BoolVal(False)
    val = z3.BitVecVal(0, 8)
    for s, e, v in m:
        inside = z3.And(z(s, 32) <= c, c <= z(e, 32))
        mem = z3.Or(mem, inside)
        if isinstance(v, S):
            val = z3.If(inside, z(v, 8), val)
    return mem, val


def wellformed(m):
    cs = []
    for i, (s, e, v) in enumerate(m):
        cs.append(z(s, 32) <= z(e, 32))
        cs.append(z(e, 32) <= MAXCP)
        if i:
            cs.append(z(m[i - 1][1], 32) < z(s, 32))
    return z3.And(*cs) if cs else z3.BoolVal(True)


def model_int(m, x):
    v = m.eval(x, model_completion=True)
    return v.as_long()


def symbolic_step(ex, op, ka, kb, rep, drv, stats):
    """all maps with ka ranges x all arguments (insert: any start<=end<=MAXCP; else maps with kb
    ranges); returns number of paths"""
    base = []
    amap, anames = sym_map('a', ka, base)
    c = z3.Int('c')
    base += [c >= 0, c <= MAXCP]
    if op == 'insert':
        s, e, v = z3.Int('n_s'), z3.Int('n_e'), z3.BitVec('n_v', 8)
        base += [s >= 0, s <= e, e <= MAXCP]
        arg = (S(32, s), S(32, e), S(8, v))
        argm = [arg]
        bnames = [(s, e, v)]
    else:
        arg, bnames = sym_map('b', kb, base, with_val=(op != 'remove_ranges'))
        argm = read_map(arg)
    ex.reset_solver(60000)
    ex.solver.add(*base)
    pre = read_map(amap)
    t0 = time.time()
    res = run_op(ex, op, amap, arg)
    npaths = 0
    for kind, st, val in res:
        npaths += 1
        stats['paths'] += 1
        cex = None
        what = None
        if kind == 'panic':
            m = ex.model(st.pc)
            if m is not None:
                cex, what = m, 'panic: ' + str(val)
        else:
            post = read_map(val)
            stats['nontrivial'] += 1 if len(st.pc) >= 2 else 0
            pm, pv = member(pre, c)
            am, av = member(argm, c)
            qm, qv = member(post, c)
            if op == 'remove_ranges':
                good = z3.And(wellformed(post), qm == z3.And(pm, z3.Not(am)), z3.Implies(qm, qv == pv))
            else:
                good = z3.And(wellformed(post), qm == z3.Or(pm, am), qv == (pv | av))
            stats['queries'] += 1
            m = ex.model(st.pc + [z3.Not(good)])
            if m is not None:
                cex, what = m, 'post-condition'
        if cex is not None:
            a_c = [(model_int(cex, s_), model_int(cex, e_), model_int(cex, v_)) for s_, e_, v_ in anames]
            if op == 'insert':
                b_c = (model_int(cex, bnames[0][0]), model_int(cex, bnames[0][1]), model_int(cex, bnames[0][2]))
            else:
                b_c = [(model_int(cex, s_), model_int(cex, e_), model_int(cex, v_) if v_ is not None else 0) for s_, e_, v_ in bnames]
            cp = model_int(cex, c)
            confirmed, detail = replay_native(drv, op, a_c, b_c)
            key = '%s %s' % (op, classify(op, a_c, b_c))
            if confirmed:
                rep.violation(key, '%s on a=%s arg=%s: %s (%s)' % (op, a_c, b_c, detail, what),
                              {'property': 'C11', 'op': op, 'a': a_c, 'arg': b_c, 'code_point': cp, 'native': detail,
                               'replay': 'echo %r | %s' % (line_for(op, a_c, b_c), drv)})
            else:
                rep.inconc('counterexample did not reproduce natively: %s a=%s arg=%s (%s)' % (op, a_c, b_c, detail))
    stats['time'] += time.time() - t0
    return npaths


def classify(op, a, b):
    """role-based key of a failing case (for known-findings matching)"""
    if op != 'remove_ranges':
        return 'general'
    # which case of the subtraction: removed range starts at/before an old range's start and ...
    for (s, e, v) in a:
        for (rs, re_, _) in b:
            lo, hi = max(s, rs), min(e, re_)
            if lo <= hi and lo == s and hi == e:
                return 'removed-covers-whole-piece'
            if lo <= hi and lo == s:
                return 'overlap-at-left-end'
    return 'general'


def ref_apply(op, a, b):
    """reference semantics on concrete maps: dict code-point-interval arithmetic via breakpoints"""
    pts = set([0, MAXCP + 1])
    rs = list(a) + ([b] if op == 'insert' else list(b))
    for s, e, _ in rs:
        pts.add(s)
        pts.add(e + 1)
    pts = sorted(p for p in pts if p <= MAXCP + 1)
    out = {}

    def look(m, x):
        for s, e, v in m:
            if s <= x <= e:
                return v
        return None
    for i in range(len(pts) - 1):
        x = pts[i]
        va = look(a, x)
        vb = look([b] if op == 'insert' else b, x)
        if op == 'remove_ranges':
            r = va if vb is None else None
        else:
            r = None if (va is None and vb is None) else (va or 0) | (vb or 0)
        out[(pts[i], pts[i + 1] - 1)] = r
    return out


def replay_native(drv, op, a, b):
    outs = native(drv, [line_for(op, a, b)])
    nat = outs[0].strip() if outs else ''
    if nat == 'PANIC':
        return True, 'native code panics'
    if not nat.startswith('OK'):
        return False, 'driver output %r' % nat
    post = []
    body = nat[2:].strip()
    if body:
        for part in body.split(';'):
            s, e, v = part.split()
            post.append((int(s), int(e), int(v)))
    # well-formedness
    for i, (s, e, v) in enumerate(post):
        if s > e:
            return True, 'result %s contains inverted range (%d,%d)' % (post, s, e)
        if i and post[i - 1][1] >= s:
            return True, 'result %s is not sorted/disjoint' % (post,)
    ref = ref_apply(op, a, b)
    for (lo, hi), r in ref.items():
        for x in (lo, hi):
            got = None
            for s, e, v in post:
                if s <= x <= e:
                    got = v
            if (got is None) != (r is None) or (r is not None and got != r):
                return True, 'result %s: code point %d has %r, expected %r' % (post, x, got, r)
    return False, 'native result %s is correct' % (post,)


def contains_check(ex, rep, stats):
    """Range::contains(c) == start <= c <= end for all ranges and chars (single path, one query)"""
    f = ex.prog.find('Range', 'contains')
    s, e, c = z3.Int('r_s'), z3.Int('r_e'), z3.Int('ch')
    ex.reset_solver()
    ex.solver.add(c >= 0, c <= MAXCP, s >= 0, s < 2**32, e >= 0, e < 2**32)
    st = State()
    st.root()['r'] = A((S(32, s), S(32, e), UNIT))
    res = ex.call_fn(st, f, [Ref(0, 'r'), S(32, c)])
    for kind, s2, val in res:
        stats['paths'] += 1
        if kind == 'panic':
            rep.violation('contains panic', 'Range::contains panics', {'msg': str(val)})
            continue
        want = z3.And(s <= c, c <= e)
        got = val.v if not val.conc() else z3.BoolVal(bool(val.v))
        stats['queries'] += 1
        m = ex.model(s2.pc + [got != want])
        if m is not None:
            rep.violation('contains wrong', 'Range::contains disagrees with start<=c<=end',
                          {'start': model_int(m, s), 'end': model_int(m, e), 'c': model_int(m, c)})


def main():
    rep = Report('C11')
    rng = random.Random(seed())
    thorough = tier() == 'thorough'
    stats = {'paths': 0, 'queries': 0, 'nontrivial': 0, 'time': 0.0}
    try:
        mir, drv = build()
        prog = Program()
        prog.add_dump(mir)
        ex = make_executor(prog)
        ncases, bad = validate_translator(ex, drv, rng, 400 if thorough else 150)
        if bad:
            for b in bad[:5]:
                rep.inconc('executor/native disagreement on concrete input: %r' % (b,))
            return rep.finish()
        bounds = {'insert': (4 if thorough else 3, 1), 'insert_ranges': (3 if thorough else 2, 3 if thorough else 2),
                  'remove_ranges': (4 if thorough else 3, 4 if thorough else 3)}
        per = {}
        for op, (ka_max, kb_max) in bounds.items():
            for ka in range(ka_max + 1):
                for kb in (range(kb_max + 1) if op != 'insert' else [1]):
                    t1 = time.time()
                    n = symbolic_step(ex, op, ka, kb, rep, drv, stats)
                    if os.environ.get('VERIF_VERBOSE'):
                        print('  %s K=%d K\'=%d: %d paths, %.1fs' % (op, ka, kb, n, time.time() - t1), file=sys.stderr)
                    per['%s K=%d K\'=%d' % (op, ka, kb)] = n
        contains_check(ex, rep, stats)
        cov11 = {
            'evaluations': stats['queries'] + ex.queries,
            'distinct_nontrivial': stats['nontrivial'],
            'rule': 'one case = one control-flow path of the real MIR of insert/insert_ranges/remove_ranges from an arbitrary valid '
                    'K-range map and arbitrary argument, decided for ALL end points/values/code points by z3; non-trivial = path '
                    'condition has >= 2 branch constraints (some overlap/ordering decision was taken)',
            'samples': [{'op_and_sizes': k, 'paths': v} for k, v in list(per.items())[:12]],
            'states': stats['paths'], 'transitions': ex.queries, 'traces_validated_against_impl': ncases,
            'functions_encoded': ['RangeMap::insert', 'RangeMap::insert_ranges', 'RangeMap::remove_ranges', 'Range::contains'],
            'bounds': {k: {'K_max': v[0], 'Kprime_max': v[1]} for k, v in bounds.items()},
            'paths_per_configuration': per,
            'solver': 'z3 %s' % z3.get_version_string(), 'solver_time_s': round(ex.solver_time, 2),
            'queries_discharged': ex.queries,
            'encoding': 'regenerated from %s/crates/lexgen/src/range_map.rs via rustc -Zunpretty=mir on this run' % REPO,
            'exhaustive': False,
        }
        rep.assumptions = [
            'maps larger than the stated K are outside the claim (one inductive step from an arbitrary valid state covers operation sequences of any length, but only over maps of at most K ranges)',
            'end points <= 0x10FFFF (code points)', 'value type abstracted to u8 bit sets with merge = bit-or',
            'std summaries: ' + '; '.join(SM.SUMMARY_DOC),
            'executor validated on %d concrete cases against the natively compiled functions' % ncases,
        ]
        # class expressions end to end (regex_to_range_map, code generation) through one-character lexers
        import lexcheck
        lexcheck.run_lex(rep, 'C11', extra_coverage=cov11)
        if not rep.coverage:
            rep.coverage = cov11
    except (Inconclusive, BuildError) as e:
        rep.inconc(str(e)[:2000])
    return rep.finish()


if __name__ == '__main__':
    sys.exit(main())
