"""Generation and building of the harness crate: one module per lexer definition, expanded by the
proc macro of /repo's current working tree; MIR dump (nightly) for the symbolic engine and a native
driver (stable toolchain, dev profile) for executor validation and counterexample replay."""
import hashlib
import json
import os
import shutil
import subprocess

from common import REPO, WORK, scratch, write_if_changed, run, BuildError, ENV, repo_hash

RT = r'''
use lexgen_util::Loc;
use std::cell::RefCell;

#[derive(Clone, Debug, Default)]
pub struct St {
    pub script: Vec<u8>,
    pub pos: usize,
    pub err: u32,
    pub sentinel: u32,
}

impl St {
    pub fn decide(&mut self, n: u8) -> u8 {
        let d = self.script.get(self.pos).copied().unwrap_or(0);
        self.pos += 1;
        if d >= n { n - 1 } else { d }
    }
}

thread_local! {
    pub static LOG: RefCell<Vec<String>> = RefCell::new(Vec::new());
}

pub fn fmt_loc(l: &Loc) -> String {
    format!("{}:{}:{}", l.line, l.col, l.byte_idx)
}

pub fn vlog(k: u32, loc: (Loc, Loc), peek: Option<char>) {
    let p = match peek { None => "-".to_string(), Some(c) => format!("{}", c as u32) };
    LOG.with(|l| l.borrow_mut().push(format!("A {} {} {} {}", k, fmt_loc(&loc.0), fmt_loc(&loc.1), p)));
}

pub fn vlog_str(k: u32, loc: (Loc, Loc), peek: Option<char>, m: &str) {
    let p = match peek { None => "-".to_string(), Some(c) => format!("{}", c as u32) };
    let ms: Vec<String> = m.chars().map(|c| format!("{}", c as u32)).collect();
    LOG.with(|l| l.borrow_mut().push(format!("A {} {} {} {} M{}", k, fmt_loc(&loc.0), fmt_loc(&loc.1), p, ms.join("."))));
}

pub fn take_log() -> Vec<String> {
    LOG.with(|l| std::mem::take(&mut *l.borrow_mut()))
}

#[derive(Clone, Debug)]
pub struct It {
    pub buf: std::rc::Rc<Vec<char>>,
    pub pos: usize,
}

impl Iterator for It {
    type Item = char;
    fn next(&mut self) -> Option<char> {
        if self.pos < self.buf.len() {
            let c = self.buf[self.pos];
            self.pos += 1;
            Some(c)
        } else {
            None
        }
    }
}

pub fn fmt_item(item: &Option<Result<(Loc, u32, Loc), lexgen_util::LexerError<u32>>>) -> String {
    match item {
        None => "I none".to_string(),
        Some(Ok((a, t, b))) => format!("I tok {} {} {}", t, fmt_loc(a), fmt_loc(b)),
        Some(Err(e)) => match &e.kind {
            lexgen_util::LexerErrorKind::InvalidToken => format!("I invalid {}", fmt_loc(&e.location)),
            lexgen_util::LexerErrorKind::Custom(x) => format!("I custom {} {}", x, fmt_loc(&e.location)),
        },
    }
}

pub fn fmt_item_inf(item: &Option<Result<(Loc, u32, Loc), lexgen_util::LexerError<std::convert::Infallible>>>) -> String {
    match item {
        None => "I none".to_string(),
        Some(Ok((a, t, b))) => format!("I tok {} {} {}", t, fmt_loc(a), fmt_loc(b)),
        Some(Err(e)) => format!("I invalid {}", fmt_loc(&e.location)),
    }
}
'''

MODULE = r'''
#![allow(unused, non_snake_case, clippy::all)]
use lexgen::lexer;
use crate::rt::{St, vlog, vlog_str, It, take_log};

lexer! {
%(lexer)s
}

pub fn tag(r: %(L)sRule) -> u8 {
    match r {
%(tag_arms)s
    }
}

fn rule_of(i: u8) -> %(L)sRule {
    match i {
%(rule_arms)s
    }
}

/// native driver: ctor 0 = new_from_iter_with_state, 1 = new_with_state(&str),
/// 2 = new_from_iter (Default state), 3 = new (Default state); clone_at: clone the lexer before call k
/// and continue with the clone (k = 255: never; 100 + k: the original first runs to the end of its stream)
pub fn run(input: &[char], start: u8, prepeek: bool, script: Vec<u8>, err: u32, ncalls: usize, ctor: u8, clone_at: u8) -> Vec<String> {
    let st = St { script, pos: 0, err, sentinel: 0x5e71 };
    let mut out = Vec::new();
    let s: String = input.iter().collect();
    if ctor == 1 || ctor == 3 {
        let mut lx = if ctor == 1 { %(L)s::new_with_state(&s, st) } else { %(L)s::new(&s) };
        if start != 0 { let _ = lx.switch::<u32>(rule_of(start)); }
        if prepeek { let _ = lx.peek(); }
        for k in 0..ncalls {
            if clone_at as usize == k { let c = lx.clone(); let _ = lx.next(); lx = c; let _ = take_log(); }
            if clone_at >= 100 && clone_at != 255 && (clone_at - 100) as usize == k {
                // the original runs ahead to the end of its stream, then the clone continues
                let c = lx.clone();
                for _ in 0..(ncalls + 2) { if lx.next().is_none() { break; } }
                lx = c;
                let _ = take_log();
            }
            let item = lx.next();
            out.extend(take_log());
            out.push(%(fmt)s(&item));
        }
        let (up, us) = { let u = lx.state(); (u.pos, u.sentinel) };
        out.push(format!("S {} {}", up, us));
    } else {
        let it = It { buf: std::rc::Rc::new(input.to_vec()), pos: 0 };
        let mut lx = if ctor == 0 { %(L)s::new_from_iter_with_state(it, st) } else { %(L)s::new_from_iter(it) };
        if start != 0 { let _ = lx.switch::<u32>(rule_of(start)); }
        if prepeek { let _ = lx.peek(); }
        for k in 0..ncalls {
            if clone_at as usize == k { let c = lx.clone(); let _ = lx.next(); lx = c; let _ = take_log(); }
            if clone_at >= 100 && clone_at != 255 && (clone_at - 100) as usize == k {
                // the original runs ahead to the end of its stream, then the clone continues
                let c = lx.clone();
                for _ in 0..(ncalls + 2) { if lx.next().is_none() { break; } }
                lx = c;
                let _ = take_log();
            }
            let item = lx.next();
            out.extend(take_log());
            out.push(%(fmt)s(&item));
        }
        let (up, us) = { let u = lx.state(); (u.pos, u.sentinel) };
        out.push(format!("S {} {}", up, us));
    }
    out
}
'''

DRV = r'''
use std::io::BufRead;
fn main() {
    std::panic::set_hook(Box::new(|_| {}));
    let stdin = std::io::stdin();
    for line in stdin.lock().lines() {
        let line = line.unwrap();
        let t: Vec<&str> = line.split(' ').collect();
        // module start prepeek err ncalls ctor clone_at script(dot separated or -) input(dot separated code points or -)
        let m: usize = t[0].parse().unwrap();
        let start: u8 = t[1].parse().unwrap();
        let prepeek = t[2] == "1";
        let err: u32 = t[3].parse().unwrap();
        let ncalls: usize = t[4].parse().unwrap();
        let ctor: u8 = t[5].parse().unwrap();
        let clone_at: u8 = t[6].parse().unwrap();
        let script: Vec<u8> = if t[7] == "-" { vec![] } else { t[7].split('.').map(|x| x.parse().unwrap()).collect() };
        let input: Vec<char> = if t[8] == "-" { vec![] } else { t[8].split('.').map(|x| char::from_u32(x.parse().unwrap()).unwrap()).collect() };
        let r = std::panic::catch_unwind(move || lexcases::dispatch(m, &input, start, prepeek, script, err, ncalls, ctor, clone_at));
        match r {
            Ok(lines) => println!("{}", lines.join("|")),
            Err(_) => println!("PANIC"),
        }
    }
}
'''

RANGES_BIN = r'''
// ranges of the Rust predicates, computed with an own loop (not the repository's generator)
fn ranges(f: &dyn Fn(char) -> bool) -> Vec<(u32, u32)> {
    let mut out: Vec<(u32, u32)> = vec![];
    for cp in 0u32..=0x10FFFF {
        if let Some(c) = char::from_u32(cp) {
            if f(c) {
                match out.last_mut() {
                    Some(l) if l.1 + 1 == cp || (l.1 == 0xD7FF && cp == 0xE000) => l.1 = cp,
                    _ => out.push((cp, cp)),
                }
            }
        }
    }
    out
}
fn main() {
    use unicode_xid::UnicodeXID;
    let fs: Vec<(&str, Box<dyn Fn(char) -> bool>)> = vec![
        ("alphabetic", Box::new(|c: char| c.is_alphabetic())), ("alphanumeric", Box::new(|c: char| c.is_alphanumeric())),
        ("ascii", Box::new(|c: char| c.is_ascii())), ("ascii_alphabetic", Box::new(|c: char| c.is_ascii_alphabetic())),
        ("ascii_alphanumeric", Box::new(|c: char| c.is_ascii_alphanumeric())), ("ascii_control", Box::new(|c: char| c.is_ascii_control())),
        ("ascii_digit", Box::new(|c: char| c.is_ascii_digit())), ("ascii_graphic", Box::new(|c: char| c.is_ascii_graphic())),
        ("ascii_hexdigit", Box::new(|c: char| c.is_ascii_hexdigit())), ("ascii_lowercase", Box::new(|c: char| c.is_ascii_lowercase())),
        ("ascii_punctuation", Box::new(|c: char| c.is_ascii_punctuation())), ("ascii_uppercase", Box::new(|c: char| c.is_ascii_uppercase())),
        ("ascii_whitespace", Box::new(|c: char| c.is_ascii_whitespace())), ("control", Box::new(|c: char| c.is_control())),
        ("lowercase", Box::new(|c: char| c.is_lowercase())), ("numeric", Box::new(|c: char| c.is_numeric())),
        ("uppercase", Box::new(|c: char| c.is_uppercase())), ("whitespace", Box::new(|c: char| c.is_whitespace())),
        ("XID_Start", Box::new(|c: char| c.is_xid_start())), ("XID_Continue", Box::new(|c: char| c.is_xid_continue())),
    ];
    let mut parts = vec![];
    for (n, f) in fs.iter() {
        let r = ranges(f.as_ref());
        let s: Vec<String> = r.iter().map(|(a, b)| format!("[{},{}]", a, b)).collect();
        parts.push(format!("\"{}\": [{}]", n, s.join(",")));
    }
    println!("{{{}}}", parts.join(",\n"));
    // display widths of a few sample characters are not needed here
}
'''

WIDTH_BIN = r'''
// prints unicode-width's answer for the code points given on stdin (one per line)
use std::io::BufRead;
use unicode_width::UnicodeWidthChar;
fn main() {
    if std::env::args().nth(1).as_deref() == Some("--ranges") {
        // maximal ranges of scalar values with the same answer, for every answer other than Some(1)
        let mut start = 0u32;
        let mut cur: Option<Option<usize>> = None;
        for cp in 0u32..=0x110000 {
            let w = char::from_u32(cp).map(|c| c.width());
            if w != cur {
                if let Some(x) = cur { if x != Some(1) { println!("{} {} {}", start, cp - 1, match x { None => "-".to_string(), Some(k) => k.to_string() }); } }
                start = cp;
                cur = w;
            }
        }
        return;
    }
    let stdin = std::io::stdin();
    for line in stdin.lock().lines() {
        let cp: u32 = line.unwrap().trim().parse().unwrap();
        match char::from_u32(cp).and_then(|c| c.width()) { None => println!("-"), Some(w) => println!("{}", w) }
    }
}
'''


class LexCrate:
    def __init__(self, defs, name='lexcases'):
        self.defs = defs
        self.name = name
        self.dir = scratch(name)
        self.mir = None
        self.drv = None
        self.errors = {}        # def index -> build error text

    def lname(self, i):
        return 'L%d' % i

    def write(self, only=None):
        d = self.dir
        src = os.path.join(d, 'src')
        os.makedirs(os.path.join(src, 'bin'), exist_ok=True)
        write_if_changed(os.path.join(d, 'Cargo.toml'), '''[package]
name = "lexcases"
version = "0.1.0"
edition = "2021"

[dependencies]
lexgen = { path = "%s/crates/lexgen" }
lexgen_util = { path = "%s/crates/lexgen_util" }
unicode-xid = "0.2.2"
unicode-width = "0.2.0"

[workspace]

[profile.dev]
debug = 0
''' % (REPO, REPO))
        shutil.copyfile(os.path.join(REPO, 'Cargo.lock'), os.path.join(d, 'Cargo.lock'))
        os.makedirs(os.path.join(d, '.cargo'), exist_ok=True)
        write_if_changed(os.path.join(d, '.cargo', 'config.toml'), '[net]\noffline = true\n')
        write_if_changed(os.path.join(src, 'rt.rs'), RT)
        mods = []
        arms = []
        # remove stale modules
        keep = set(['rt.rs', 'lib.rs', 'bin'])
        for i, df in enumerate(self.defs):
            if only is not None and i not in only:
                continue
            L = self.lname(i)
            names = df.rs_names()
            tag_arms = '\n'.join('        %sRule::%s => %d,' % (L, n, 100 + j) for j, n in enumerate(names))
            rule_arms = '\n'.join('        %d => %sRule::%s,' % (j, L, n) for j, n in enumerate(names[:-1]))
            rule_arms += ('\n' if rule_arms else '') + '        _ => %sRule::%s,' % (L, names[-1])
            text = MODULE % {'lexer': df.lexer_text(L), 'L': L, 'tag_arms': tag_arms, 'rule_arms': rule_arms,
                             'fmt': 'crate::rt::fmt_item' if df.fallible else 'crate::rt::fmt_item_inf'}
            fn = 'd%d.rs' % i
            keep.add(fn)
            write_if_changed(os.path.join(src, fn), text)
            mods.append('pub mod d%d;' % i)
            arms.append('        %d => d%d::run(input, start, prepeek, script, err, ncalls, ctor, clone_at),' % (i, i))
        for f in os.listdir(src):
            if f not in keep:
                os.remove(os.path.join(src, f))
        lib = '#![allow(unused, non_snake_case, clippy::all)]\npub mod rt;\n' + '\n'.join(mods) + '''
pub fn dispatch(m: usize, input: &[char], start: u8, prepeek: bool, script: Vec<u8>, err: u32, ncalls: usize, ctor: u8, clone_at: u8) -> Vec<String> {
    match m {
%s
        _ => vec!["NOMODULE".to_string()],
    }
}
''' % '\n'.join(arms)
        write_if_changed(os.path.join(src, 'lib.rs'), lib)
        write_if_changed(os.path.join(src, 'bin', 'drv.rs'), DRV)
        write_if_changed(os.path.join(src, 'bin', 'ranges.rs'), RANGES_BIN)
        write_if_changed(os.path.join(src, 'bin', 'width.rs'), WIDTH_BIN)

    def cargo(self, args, toolchain=None, timeout=900, target_dir=None):
        cmd = ['cargo'] + (['+' + toolchain] if toolchain else []) + args
        env = {}
        if target_dir:
            env['CARGO_TARGET_DIR'] = target_dir
        return run(cmd, cwd=self.dir, timeout=timeout, env=env)

    def dump_mir(self, timeout=900):
        lib = os.path.join(self.dir, 'src', 'lib.rs')
        os.utime(lib, None)
        try:
            code, out, err = self.cargo(['rustc', '--offline', '--lib', '--', '-Zunpretty=mir', '-C', 'debug-assertions=off',
                                         '-C', 'overflow-checks=on'], toolchain='nightly', timeout=timeout,
                                        target_dir=os.path.join(self.dir, 'target-mir'))
        except subprocess.TimeoutExpired:
            return None, 'macro expansion / compilation did not finish within %d s' % timeout
        if code != 0:
            return None, err
        self.mir = out
        return out, None

    def build_native(self, timeout=900):
        try:
            code, out, err = self.cargo(['build', '--offline', '--bins'], timeout=timeout)
        except subprocess.TimeoutExpired:
            return None, 'native build timed out'
        if code != 0:
            return None, err
        self.drv = os.path.join(self.dir, 'target', 'debug', 'drv')
        return self.drv, None

    def build_all(self):
        """write + MIR dump + native build; on failure bisect out the definitions that do not
        expand/compile (they get no verdict; recorded in self.errors)."""
        live = set(range(len(self.defs)))
        self.write(only=live)
        budget = max(150, 12 * len(live))
        mir, err = self.dump_mir(timeout=budget)
        if mir is None:
            bad = self.bisect(sorted(live))
            for i, e in bad.items():
                self.errors[i] = e
                live.discard(i)
            self.write(only=live)
            mir, err = self.dump_mir(timeout=budget)
            if mir is None:
                raise BuildError('harness crate does not build even without the failing definitions:\n' + (err or '')[-3000:])
        drv, err = self.build_native(timeout=budget + 120)
        if drv is None:
            raise BuildError('native driver build failed:\n' + (err or '')[-3000:])
        self.live = live
        return mir, drv

    def bisect(self, idxs):
        """find the definitions whose presence breaks the build (each tested alone, in parallel)"""
        from concurrent.futures import ThreadPoolExecutor
        bad = {}

        def probe_one(i):
            probe = LexCrate(self.defs, name='%s-probe%d' % (self.name, i))
            try:
                probe.write(only={i})
                try:
                    code, out, err = probe.cargo(['check', '--offline', '--lib'], timeout=90)
                except subprocess.TimeoutExpired:
                    return i, 'macro expansion did not terminate within 90 s'
                if code != 0:
                    msg = [l for l in err.split('\n') if l.startswith('error')]
                    return i, '; '.join(msg[:3]) or err[-500:]
                return i, None
            finally:
                shutil.rmtree(probe.dir, ignore_errors=True)
        with ThreadPoolExecutor(max_workers=8) as pool:
            for i, e in pool.map(probe_one, idxs):
                if e is not None:
                    bad[i] = e
        return bad

    def native_run(self, lines, timeout=120):
        """one output line per driver line; a line on which the natively compiled lexer does not come back is answered
        with 'HANG' (found by running the lines one by one under a short limit after the batch timed out)"""
        import subprocess
        from concurrent.futures import ThreadPoolExecutor
        try:
            code, out, err = run([self.drv], input='\n'.join(lines) + '\n', timeout=timeout)
            return [l for l in out.split('\n') if l != '']
        except subprocess.TimeoutExpired:
            pass

        def one(l):
            try:
                code, out, err = run([self.drv], input=l + '\n', timeout=10)
                o = [x for x in out.split('\n') if x != '']
                return o[0] if o else 'NOOUTPUT'
            except subprocess.TimeoutExpired:
                return 'HANG'
        with ThreadPoolExecutor(max_workers=8) as pool:
            return list(pool.map(one, lines))

    def builtin_ranges(self):
        cache = os.path.join(self.dir, 'builtin_ranges.json')
        code, out, err = run([os.path.join(self.dir, 'target', 'debug', 'ranges')], timeout=300)
        if code != 0:
            raise BuildError('ranges helper failed: ' + err[-500:])
        return {k: [tuple(x) for x in v] for k, v in json.loads(out).items()}

    def width_ranges(self):
        """[(lo, hi, None|int)] for all scalar values whose unicode-width answer is not Some(1)"""
        code, out, err = run([os.path.join(self.dir, 'target', 'debug', 'width'), '--ranges'], timeout=120)
        res = []
        for l in out.split('\n'):
            t = l.split()
            if len(t) == 3:
                res.append((int(t[0]), int(t[1]), None if t[2] == '-' else int(t[2])))
        return res

    def widths(self, cps):
        code, out, err = run([os.path.join(self.dir, 'target', 'debug', 'width')], input='\n'.join(str(c) for c in cps) + '\n', timeout=60)
        res = {}
        for cp, l in zip(cps, out.split('\n')):
            res[cp] = None if l.strip() == '-' else int(l)
        return res


def drv_line(m, start, prepeek, err, ncalls, ctor, clone_at, script, input_cps):
    return '%d %d %d %d %d %d %d %s %s' % (m, start, 1 if prepeek else 0, err, ncalls, ctor, clone_at,
                                           '.'.join(str(x) for x in script) if script else '-',
                                           '.'.join(str(x) for x in input_cps) if input_cps else '-')
