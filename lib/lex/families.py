"""Families of lexer definitions (the enumerated / sampled 'programs' dimension)."""
import random

from .spec import Rule, Def
from . import regex as R


def ch(c):
    return ('chr', ord(c) if isinstance(c, str) else c)


def st(s):
    return ('str', tuple(ord(c) for c in s))


def cs(*items):
    out = []
    for it in items:
        if isinstance(it, tuple):
            out.append((ord(it[0]) if isinstance(it[0], str) else it[0], ord(it[1]) if isinstance(it[1], str) else it[1]))
        else:
            out.append((ord(it), ord(it)) if isinstance(it, str) else (it, it))
    return ('set', tuple(out))


ANY = ('any',)
EOFR = ('eof',)


def star(r):
    return ('star', r)


def plus(r):
    return ('plus', r)


def opt(r):
    return ('opt', r)


def cat(*rs):
    out = rs[0]
    for r in rs[1:]:
        out = ('cat', out, r)
    return out


def alt(*rs):
    out = rs[0]
    for r in rs[1:]:
        out = ('alt', out, r)
    return out


def diff(a, b):
    return ('diff', a, b)


def bi(name):
    return ('builtin', name)


# ------------------------------------------------------------------------------------------------
# curated definitions: README lexers, shapes of the repo's bugs.rs / right_ctx.rs tests, and the
# concrete counterexamples quoted in the properties

def curated():
    D = []
    # C01's quoted counterexample: missed rewind
    D.append(Def('c01_quoted', [('Init', [
        Rule(cat(cs(('b', 'c')), st('bab'), alt(cs(('c', 'e')), st('ab'))), 'tok'),
        Rule(ch('b'), 'tok'), Rule(ch('a'), 'tok'), Rule(cat(st('cbaa'), cs(('b', 'c'))), 'tok')])],
        tags=['C01', 'curated', 'rewind']))
    # C12's quoted looping definition (update_backtracks)
    D.append(Def('c12_quoted', [('Init', [
        Rule(ch('c'), 'tok'), Rule(cat(cs(('a', 'd')), st('cc')), 'tok'), Rule(cat(plus(cs(('a', 'd'))), st('ba')), 'tok'),
        Rule(ch('c'), 'tok'), Rule(ch('b'), 'tok')])], tags=['C01', 'curated', 'rewind']))
    # issue_16 shape
    D.append(Def('issue16', [('Init', [
        Rule(st('xyzxyz'), 'tok'), Rule(st('xyz'), 'tok'), Rule(st('xya'), 'tok')])], tags=['C01', 'curated', 'rewind']))
    D.append(Def('issue16b', [('Init', [
        Rule(cat(ch('a'), plus(ch('b')), ch('c')), 'ret'), Rule(ch('a'), 'ret'), Rule(plus(ch('b')), 'ret'), Rule(ch(' '), 'skip')])],
        tags=['C01', 'C10', 'curated', 'rewind']))
    # README stateful lexer
    D.append(Def('readme_count', [
        ('Init', [Rule(bi('ascii_whitespace'), 'skip'), Rule(ch('['), 'sw', target='Count')]),
        ('Count', [Rule(ch('='), 'cont'), Rule(ch('['), 'swret', target='Init')])], tags=['C03', 'C10', 'curated']))
    # README identifier lexer
    D.append(Def('readme_ident', [('Init', [
        Rule(plus(cs(' ', '\t', '\n')), 'skip'),
        Rule(cat(('var', 'init', cs(('a', 'z'))), star(('var', 'subseq', alt(('var', 'init', cs(('a', 'z'))), cs(('A', 'Z'), ('0', '9'), '-', '_'))))), 'ret')])],
        lets=[('init', cs(('a', 'z'))), ('subseq', alt(('var', 'init', cs(('a', 'z'))), cs(('A', 'Z'), ('0', '9'), '-', '_')))],
        tags=['C02', 'C06', 'curated']))
    # failure_should_reset_state_issue_48 shape, without explicit switches after the error
    D.append(Def('recover', [
        ('Init', [Rule(ch('a'), 'sw', target='Other'), Rule(ch('b'), 'tok'), Rule(ch(' '), 'skip')]),
        ('Other', [Rule(ch('c'), 'tok'), Rule(ch('d'), 'swret', target='Init')])], tags=['C08', 'C03', 'curated']))
    # end-of-input shapes
    D.append(Def('eof1', [
        ('Init', [Rule(cat(plus(ch('a')), EOFR), 'tok'), Rule(plus(ch('a')), 'tok'), Rule(ch('b'), 'sw', target='X'), Rule(EOFR, 'tok')]),
        ('X', [Rule(ch('c'), 'tok'), Rule(cat(ch('d'), EOFR), 'swret', target='Init'), Rule(EOFR, 'ret')])], tags=['C05', 'curated']))
    D.append(Def('eof2', [
        ('Init', [Rule(ch('a'), 'sw', target='Y'), Rule(st('bc'), 'tok'), Rule(ch('b'), 'cont')]),
        ('Y', [Rule(st('xy'), 'tok'), Rule(ch('x'), 'cont'), Rule(ch('z'), 'sw', target='Init')])], tags=['C05', 'C10', 'curated']))
    # right contexts: shapes of right_ctx.rs plus multi-character / nullable / $ contexts
    D.append(Def('ctx1', [('Init', [
        Rule(ch('a'), 'tok', ctx=diff(ANY, ch('b'))), Rule(ch('a'), 'tok'), Rule(ch('b'), 'tok')])], tags=['C04', 'curated']))
    D.append(Def('ctx2', [('Init', [
        Rule(plus(ch('a')), 'tok', ctx=st('bc')), Rule(ch('a'), 'tok', ctx=EOFR), Rule(plus(ch('a')), 'tok'), Rule(cs('b', 'c'), 'tok')])],
        tags=['C04', 'curated']))
    D.append(Def('ctx3', [('Init', [
        Rule(st('ab'), 'ret', ctx=plus(ch('c'))), Rule(ch('a'), 'ret', ctx=star(ch('x'))), Rule(cs(('a', 'c')), 'ret'), Rule(ANY, 'ret', ctx=alt(ch('a'), EOFR))])],
        tags=['C04', 'C10', 'curated']))
    # fallible rules
    D.append(Def('fallible', [('Init', [
        Rule(plus(ch('a')), 'fok'), Rule(cat(ch('b'), opt(ch('c'))), 'ferr'), Rule(ch(' '), 'skip'), Rule(ch('d'), 'fcont'), Rule(cat(ch('d'), ch('e')), 'fok')])],
        tags=['C07', 'C10', 'curated']))
    # locations: newline, tab, multi-byte, wide
    D.append(Def('locs', [('Init', [
        Rule(plus(cs('\n', '\t', ' ')), 'skip'), Rule(plus(diff(ANY, cs('\n', '\t', ' ', 'x'))), 'ret'), Rule(cat(ch('x'), ANY, ch('y')), 'ret'), Rule(ch('x'), 'cont')])],
        tags=['C06', 'C10', 'curated', 'rewind']))
    # dynamic decisions
    two = [('Init', [Rule(plus(cs(('a', 'b'))), 'dyn', choices=[('ret', None), ('cont', None), ('rcont', None), ('sw', 'Z'), ('swret', 'Z')]),
                     Rule(ch('c'), 'tok'), Rule(cat(ch('c'), ch('c'), ch('d')), 'tok')]),
           ('Z', [Rule(ch('a'), 'dyn', choices=[('ret', None), ('sw', 'Init'), ('cont', None)]), Rule(st('ab'), 'tok'), Rule(cat(ch('b'), EOFR), 'ret')])]
    D.append(Def('dyn1', two, tags=['C10', 'C03', 'C08', 'curated']))
    # rule-set isolation with inlined / removed states before entries, empty-ish rule sets
    D.append(Def('sets3', [
        ('Init', [Rule(st('ab'), 'sw', target='B'), Rule(ch('a'), 'swret', target='C'), Rule(ch('x'), 'tok')]),
        ('B', [Rule(st('ab'), 'tok'), Rule(ch('a'), 'sw', target='C'), Rule(ch('y'), 'swret', target='Init')]),
        ('C', [Rule(cat(ch('a'), star(ch('b'))), 'tok'), Rule(ch('z'), 'sw', target='Init')])], tags=['C03', 'C08', 'curated']))
    D.append(Def('builtin_small', [('Init', [
        Rule(plus(bi('ascii_digit')), 'tok'), Rule(cat(bi('ascii_alphabetic'), star(bi('ascii_alphanumeric'))), 'tok'),
        Rule(bi('ascii_whitespace'), 'skip'), Rule(bi('ascii_punctuation'), 'tok')])], tags=['C13', 'C02', 'curated']))
    # classes with more than 9 ranges are compiled to binary-search tables (both in rules and in right contexts)
    big = cs(('a', 'b'), ('d', 'e'), ('g', 'h'), ('j', 'k'), ('m', 'n'), ('p', 'q'), ('s', 't'), ('v', 'w'), ('y', 'z'), ('0', '1'), ('3', '4'))
    D.append(Def('table_rule', [('Init', [Rule(plus(big), 'tok'), Rule(cat(ch('c'), big), 'tok'), Rule(ANY, 'tok')])], tags=['C13', 'C02', 'C11', 'curated', 'table'], nmax=2))
    D.append(Def('table_ctx', [('Init', [Rule(ch('a'), 'tok', ctx=big), Rule(ch('a'), 'tok'), Rule(ANY, 'tok')])], tags=['C04', 'C13', 'curated', 'table'], nmax=3))
    D.append(Def('table_ctx2', [('Init', [Rule(plus(ch('x')), 'tok', ctx=cat(big, ch('!'))), Rule(ch('x'), 'tok', ctx=diff(ANY, big)), Rule(ANY, 'tok')])], tags=['C04', 'C13', 'curated', 'table'], nmax=3))
    D.append(Def('table_ws', [('Init', [Rule(plus(bi('whitespace')), 'skip'), Rule(plus(diff(ANY, bi('whitespace'))), 'tok')])], tags=['C13', 'C02', 'C06', 'curated', 'table'], nmax=2))
    # class algebra through lexers (C11 end to end)
    D.append(Def('diff_chain', [('Init', [
        Rule(diff(diff(cs(('0', '9'), ('a', 'f')), cs(('3', '5'))), cs('a', ('8', 'c'))), 'tok'),
        Rule(diff(cs(('0', '5'), ('7', '9')), cs(('0', '8'))), 'tok'), Rule(ANY, 'tok')])], tags=['C11', 'C02', 'curated']))
    return D


# ------------------------------------------------------------------------------------------------
# random definitions

ALPHA = ['a', 'b', 'c']
EXTRA = ['\n', '\t', 'é', '中', '́']


def rand_class(rng, allow_any=True):
    k = rng.random()
    if k < 0.45:
        return ch(rng.choice(ALPHA))
    if k < 0.7:
        lo = rng.choice(ALPHA + ['d'])
        hi = chr(min(ord(lo) + rng.randrange(0, 3), ord('e')))
        items = [(lo, hi)] if lo != hi else [lo]
        if rng.random() < 0.3:
            x = rng.choice(['x', 'y'])
            items.append(x)
        return cs(*items)
    if k < 0.8 and allow_any:
        return ANY
    if k < 0.9 and allow_any:
        return diff(ANY, rand_class(rng, False))
    if k < 0.95:
        return diff(cs(('a', 'e')), rand_class(rng, False))
    return ch(rng.choice(EXTRA))


def rand_regex(rng, depth, allow_any=True):
    if depth <= 0:
        return rand_class(rng, allow_any)
    k = rng.random()
    if k < 0.3:
        return rand_class(rng, allow_any)
    if k < 0.4:
        n = rng.randrange(2, 4)
        return st(''.join(rng.choice(ALPHA) for _ in range(n)))
    if k < 0.6:
        return ('cat', rand_regex(rng, depth - 1, allow_any), rand_regex(rng, depth - 1, allow_any))
    if k < 0.75:
        return ('alt', rand_regex(rng, depth - 1, allow_any), rand_regex(rng, depth - 1, allow_any))
    if k < 0.85:
        return ('star', rand_regex(rng, depth - 1, allow_any))
    if k < 0.93:
        return ('plus', rand_regex(rng, depth - 1, allow_any))
    return ('opt', rand_regex(rng, depth - 1, allow_any))


def rand_rule_regex(rng, depth):
    for _ in range(50):
        r = rand_regex(rng, depth)
        if not R.matches_empty(r) and ok_regex(r):
            return r
    return ch('a')


def ok_regex(r):
    """constructs the pinned macro cannot expand are excluded (they belong to C12): duplicate single
    characters in a bracket set"""
    k = r[0]
    if k == 'set':
        singles = [lo for lo, hi in r[1] if lo == hi]
        return len(singles) == len(set(singles))
    if k in ('star', 'plus', 'opt'):
        return ok_regex(r[1])
    if k in ('cat', 'alt', 'diff'):
        return ok_regex(r[1]) and ok_regex(r[2])
    if k == 'str':
        return len(r[1]) > 0
    return True


def rand_def(rng, name, nsets=None, ctx_p=0.0, eof_p=0.1, kinds=None, maxrules=4, depth=2, tags=(), empty_p=0.0):
    nsets = nsets or rng.choice([1, 1, 2, 2, 3])
    names = ['Init'] + ['R%d' % i for i in range(1, nsets)]
    empty = set()
    if nsets > 1 and rng.random() < empty_p:
        # an empty rule set (`rule E {}`) somewhere after Init; it can be switched to like any other
        pos = rng.randrange(1, nsets + 1)
        names.insert(pos, 'E')
        empty.add('E')
    sets = []
    kinds = kinds or ['tok', 'tok', 'ret', 'skip', 'cont', 'rcont', 'sw', 'swret']
    for si, n in enumerate(names):
        if n in empty:
            sets.append((n, []))
            continue
        nr = rng.randrange(1 if si else 2, maxrules + 1)
        rules = []
        for _ in range(nr):
            r = rand_rule_regex(rng, depth)
            if rng.random() < eof_p:
                q = rng.random()
                if q < 0.5:
                    r = ('cat', r, EOFR)
                elif q < 0.65:
                    r = EOFR
                elif q < 0.9:
                    r = ('cat', r, ('alt', rand_class(rng, False), EOFR))      # `re (x | $)`: `$` at the tail of one alternative
                else:
                    r = ('cat', r, ('opt', EOFR))
            kind = rng.choice(kinds)
            target = None
            if kind in ('sw', 'swret'):
                if nsets == 1:
                    kind = 'ret'
                else:
                    target = rng.choice(names)
            ctx = None
            if rng.random() < ctx_p and r != EOFR and 'eof' not in repr(r):
                ctx = rand_ctx(rng)
                if rng.random() < 0.7:
                    # keep the lexeme short so that lexeme + context fit into the input bound
                    r = rand_class(rng) if rng.random() < 0.6 else ('plus', rand_class(rng, False))
            rules.append(Rule(r, kind, ctx=ctx, target=target))
        sets.append((n, rules))
    return Def(name, sets, tags=tags)


def range_class(rng):
    lo = rng.choice(['a', 'b', 'c'])
    hi = chr(min(ord(lo) + rng.randrange(1, 4), ord('f')))
    items = [(lo, hi)]
    if rng.random() < 0.3:
        items.append((rng.choice(['x', 'y']), 'z'))
    return cs(*items)


def rand_ctx(rng):
    k = rng.random()
    if k < 0.12:
        return rand_class(rng)
    if k < 0.22:
        return st(''.join(rng.choice(ALPHA) for _ in range(rng.randrange(2, 4))))
    if k < 0.28:
        return EOFR
    if k < 0.34:
        return ('alt', rand_class(rng), EOFR)
    if k < 0.40:
        return ('star', rand_class(rng))
    if k < 0.46:
        return ('plus', rand_class(rng))
    # multi-step contexts: the lookahead automaton has non-accepting intermediate states entered through
    # ranges, single characters and `_`
    parts = []
    for _ in range(rng.randrange(2, 4)):
        q = rng.random()
        if q < 0.35:
            parts.append(range_class(rng))
        elif q < 0.5:
            parts.append(('plus', range_class(rng)))
        elif q < 0.6:
            parts.append(('star', range_class(rng)))
        elif q < 0.8:
            parts.append(ch(rng.choice(ALPHA + ['x'])))
        elif q < 0.9:
            parts.append(diff(ANY, rand_class(rng, False)))
        else:
            parts.append(('opt', ch(rng.choice(ALPHA))))
    if rng.random() < 0.15:
        parts.append(EOFR)
    out = parts[0]
    for p in parts[1:]:
        out = ('cat', out, p)
    return out
