"""Lexer definitions as data, their printing as `lexer!{}` modules, and the reference interpreter
(the literal reading of the README / property statements; see DESIGN.md 2.2)."""
from . import regex as R
from .regex import EOF


class Rule:
    """kind: 'skip' (`re,`), 'tok' (`re = id`), or an action:
       'ret' 'cont' 'rcont' 'sw' 'swret' (=> closures), 'fok' 'ferr' 'fcont' (=? closures),
       'dyn' (=> closure whose decision is read from the symbolic script; choices = list of
       (kind, target) among ret/cont/rcont/sw/swret), 'fdyn' (=? closure, choices among fok/ferr/fcont)"""

    def __init__(self, regex, kind, ctx=None, target=None, choices=None):
        self.regex = regex
        self.ctx = ctx
        self.kind = kind
        self.target = target
        self.choices = choices
        self.gid = None          # global rule id == token value
        self.logs = kind not in ('skip', 'tok')
        self.with_text = kind == 'mret'     # the action also logs match_() (needs a &str lexer)


class Def:
    def __init__(self, name, rulesets, lets=(), tags=(), note='', nmax=None, local_lets=None):
        self.name = name
        self.local_lets = dict(local_lets or {})     # rule set name -> [(var, regex)] (`let`s inside that rule set)
        self.nmax = nmax            # cap on N for definitions whose path count explodes (binary-search tables)
        self.rulesets = rulesets            # list of (name, [Rule]) ; first is Init
        self.lets = list(lets)              # top-level (name, regex)
        self.tags = set(tags)
        self.note = note
        g = 0
        for _, rules in rulesets:
            for r in rules:
                r.gid = g
                g += 1
        self.nrules = g
        self.fallible = any(r.kind in ('fok', 'ferr', 'fcont', 'fdyn') for _, rs in rulesets for r in rs)
        self.str_input = any(r.kind == 'mret' for _, rs in rulesets for r in rs)
        self._compiled = None

    def rs_names(self):
        return [n for n, _ in self.rulesets]

    # ------------------------------------------------------------------ printing
    def lexer_text(self, lname, with_error=None):
        out = []
        out.append('    #[derive(Clone)]')
        out.append('    pub %s(St) -> u32;' % lname)
        if self.fallible if with_error is None else with_error:
            out.append('    type Error = u32;')
        for n, r in self.lets:
            out.append('    let %s = %s;' % (n, R.show(r)))
        for rsname, rules in self.rulesets:
            out.append('    rule %s {' % rsname)
            for n, r in self.local_lets.get(rsname, ()):
                out.append('        let %s = %s;' % (n, R.show(r)))
            for r in rules:
                lhs = R.show(r.regex)
                if r.ctx is not None:
                    lhs += ' > ' + R.show(r.ctx)
                out.append('        ' + lhs + self.rhs_text(lname, r) + ',')
            out.append('    }')
        return '\n'.join(out)

    def action_expr(self, lname, kind, target, gid, fallible):
        rule = '%sRule::%s' % (lname, target) if target else None
        if kind == 'ret':
            return 'lexer.return_(%d)' % gid
        if kind == 'cont':
            return 'lexer.continue_()'
        if kind == 'rcont':
            return '{ lexer.reset_match(); lexer.continue_() }'
        if kind == 'sw':
            return 'lexer.switch(%s)' % rule
        if kind == 'swret':
            return 'lexer.switch_and_return(%s, %d)' % (rule, gid)
        if kind == 'fok':
            return 'lexer.return_(Ok(%d))' % gid
        if kind == 'ferr':
            return '{ let e = lexer.state().err; lexer.return_(Err(e)) }'
        if kind == 'fcont':
            return 'lexer.continue_()'
        raise ValueError(kind)

    def rhs_text(self, lname, r):
        if r.kind == 'skip':
            return ''
        if r.kind == 'tok':
            return ' = %d' % r.gid
        log = 'vlog(%d, lexer.match_loc(), lexer.peek());' % r.gid
        if r.kind == 'mret':
            return ' => |lexer| { vlog_str(%d, lexer.match_loc(), lexer.peek(), lexer.match_()); lexer.return_(%d) }' % (r.gid, r.gid)
        if r.kind in ('dyn', 'fdyn'):
            arms = []
            for i, (k, t) in enumerate(r.choices):
                pat = '%d' % i if i < len(r.choices) - 1 else '_'
                arms.append('%s => %s' % (pat, self.action_expr(lname, k, t, r.gid, r.kind == 'fdyn')))
            body = '{ %s match lexer.state().decide(%d) { %s } }' % (log, len(r.choices), ', '.join(arms))
        else:
            body = '{ %s %s }' % (log, self.action_expr(lname, r.kind, r.target, r.gid, False))
        arrow = '=?' if r.kind in ('fok', 'ferr', 'fcont', 'fdyn') else '=>'
        return ' %s |lexer| %s' % (arrow, body)

    # ------------------------------------------------------------------ reference structures
    def compiled(self):
        if self._compiled is None:
            self._compiled = Compiled(self)
        return self._compiled

    def oracle_selfcheck(self):
        """cross-check of the reference automata against an independent matcher; -> None or a message"""
        comp = self.compiled()
        for _, rules in self.rulesets:
            for r in rules:
                for rx in ([r.regex] + ([r.ctx] if r.ctx is not None else [])):
                    w = R.crosscheck(rx, comp.part)
                    if w is not None:
                        return 'reference automaton and position-set matcher disagree on %s for class word %r' % (R.show(rx), w)
        return None

    def wellformed(self):
        for _, rules in self.rulesets:
            for r in rules:
                if R.matches_empty(r.regex):
                    return False
        return True


class Compiled:
    def __init__(self, d):
        ats = [((10, 10),), ((9, 9),)]     # newline and tab are always classes of their own (locations)
        for _, rules in d.rulesets:
            for r in rules:
                R.atoms(r.regex, ats)
                if r.ctx is not None:
                    R.atoms(r.ctx, ats)
        self.part = R.Partition(ats)
        self.rs = []
        for name, rules in d.rulesets:
            auto = R.Auto([R.compile_re(r.regex, self.part) for r in rules], self.part.n)
            ctxs = [R.Auto([R.compile_re(r.ctx, self.part)], self.part.n) if r.ctx is not None else None for r in rules]
            self.rs.append((name, rules, auto, ctxs))


class Need(Exception):
    """the reference needs a fact about the input that is not decided yet"""

    def __init__(self, what):
        self.what = what


class RefAbort(Exception):
    pass


class Oracle:
    """input facts decided so far.  syms[i] = class id or EOF."""

    def __init__(self, syms, decisions):
        self.syms = syms
        self.decisions = list(decisions)
        self.dpos = 0

    def sym(self, i):
        if i in self.syms:
            return self.syms[i]
        # end-of-input is sticky
        for j, s in self.syms.items():
            if s == EOF and j < i:
                return EOF
        raise Need(i)

    def decide(self, n):
        if self.dpos >= len(self.decisions):
            raise RefAbort('reference runs an action the implementation did not run')
        d = self.decisions[self.dpos]
        self.dpos += 1
        return d


def ctx_ok(auto, i, o):
    t = auto.start()
    j = i
    while True:
        if auto.accepting(t):
            return True
        if not auto.extensible(t):
            return False
        c = o.sym(j)
        t2 = auto.step(t, c)
        if c == EOF:
            return bool(auto.accepting(t2))
        if auto.dead(t2):
            return False
        t = t2
        j += 1


class RefState:
    """boundary state of the reference: position, rule set index, match start, done"""
    __slots__ = ('p', 'rho', 'ms', 'done')

    def __init__(self, p, rho, ms, done):
        self.p = p
        self.rho = rho
        self.ms = ms
        self.done = done

    def copy(self):
        return RefState(self.p, self.rho, self.ms, self.done)


def ends_in_eof(r):
    return r == ('eof',) or (r[0] == 'cat' and ends_in_eof(r[2])) or (r[0] == 'alt' and (ends_in_eof(r[1]) or ends_in_eof(r[2]))) \
        or (r[0] in ('opt', 'var') and ends_in_eof(r[-1]))


def ref_next(d, o, st):
    """one next() call of the reference lexer from boundary state st (mutated).
    -> (item, events, info) ; item: ('none',) | ('tok', gid, ms, e) | ('invalid', ms) | ('custom', ms)
    events: list of (gid, ms, e) ; peek position is e.  info: dict of facts used for attribution"""
    comp = d.compiled()
    names = d.rs_names()
    events = []
    info = {'eof': False, 'ctx': False, 'rewind': False, 'passes': 0, 'rules': []}
    if st.done:
        return ('none',), events, info
    while True:
        info['passes'] += 1
        name, rules, auto, ctxs = comp.rs[st.rho]
        s = auto.start()
        i = st.p
        last = None
        while True:
            acc = auto.accepting(s)
            for k in acc:
                if ctxs[k] is not None:
                    info['ctx'] = True
                    if not ctx_ok(ctxs[k], i, o):
                        continue
                if i == st.p:
                    raise RefAbort('rule matches the empty string')
                last = (i, k, False)
                break
            if not auto.extensible(s) and i > st.p:
                # a state without successors is never entered: the action runs on the transition into it.
                # (the entry state of an empty rule set is the exception: it exists and reads a character)
                stop = 'terminal'
                break
            c = o.sym(i)
            if c == EOF:
                info['eof'] = True
                s2 = auto.step(s, EOF)
                for k in auto.accepting(s2):
                    if ctxs[k] is not None:
                        info['ctx'] = True
                        if not ctx_ok(ctxs[k], i, o):
                            continue
                    last = (i, k, True)
                    break
                stop = 'eof'
                break
            s2 = auto.step(s, c)
            if auto.dead(s2):
                stop = 'dead'
                break
            s = s2
            i += 1
        if last is None:
            if stop == 'eof':
                st.done = True
                if st.rho == 0 and i == st.p:
                    return ('none',), events, info
                newp = i
            elif stop == 'dead':
                newp = i + 1
            else:
                newp = i
            item = ('invalid', st.ms)
            st.p = newp
            st.ms = newp
            st.rho = 0
            info['error'] = True
            return item, events, info
        e, k, via_eof = last
        if e < i or (stop == 'dead'):
            info['rewind'] = info['rewind'] or (e < i)
        if via_eof:
            st.done = True
        st.p = e
        r = rules[k]
        info['rules'].append(r.gid)
        if r.logs:
            events.append((r.gid, st.ms, e))
        kind, target = r.kind, r.target
        if kind in ('dyn', 'fdyn'):
            kind, target = r.choices[o.decide(len(r.choices))]
        if kind in ('sw', 'swret'):
            st.rho = names.index(target)
        if kind == 'skip' or kind == 'rcont':
            st.ms = e
        if kind in ('skip', 'cont', 'rcont', 'sw', 'fcont'):
            if st.done:
                return ('none',), events, info
            continue
        if kind in ('tok', 'ret', 'swret', 'fok', 'mret'):
            item = ('tok', r.gid, st.ms, e)
            st.ms = e
            return item, events, info
        if kind == 'ferr':
            item = ('custom', st.ms)
            st.ms = e
            return item, events, info
        raise ValueError(kind)


# ------------------------------------------------------------------------------------------------
# concrete reference run, in the line format of the native driver (crate.py DRV / rt.rs)

class ConcreteOracle(Oracle):
    def __init__(self, syms, script):
        Oracle.__init__(self, syms, ())
        self.script = list(script)

    def decide(self, n):
        d = self.script[self.dpos] if self.dpos < len(self.script) else 0
        self.dpos += 1
        return n - 1 if d >= n else d


def concrete_locs(cps, widths):
    """locations of positions 0..len from Loc::ZERO; widths: cp -> None | int (unicode-width)"""
    out = [(0, 0, 0)]
    line = col = byte = 0
    for cp in cps:
        byte += 1 if cp < 0x80 else 2 if cp < 0x800 else 3 if cp < 0x10000 else 4
        if cp == 10:
            line += 1
            col = 0
        elif cp == 9:
            col += 4
        else:
            w = widths.get(cp, 1)
            col += 1 if w is None else w
        out.append((line, col, byte))
    return out


def ref_run_concrete(d, cps, start_rho, script, err, ncalls, widths):
    comp = d.compiled()
    syms = {i: comp.part.class_of(cp) for i, cp in enumerate(cps)}
    syms[len(cps)] = EOF
    o = ConcreteOracle(syms, script)
    locs = concrete_locs(cps, widths)
    fl = lambda p: '%d:%d:%d' % locs[p]
    st = RefState(0, start_rho, 0, False)
    lines = []
    for _ in range(ncalls):
        try:
            item, events, info = ref_next(d, o, st)
        except RefAbort as e:
            lines.append('ABORT ' + str(e))
            break
        texty = {r.gid for _, rs_ in d.rulesets for r in rs_ if r.with_text}
        for gid, ms, e in events:
            l = 'A %d %s %s %s' % (gid, fl(ms), fl(e), '-' if e >= len(cps) else str(cps[e]))
            if gid in texty:
                l += ' M' + '.'.join(str(x) for x in cps[ms:e])
            lines.append(l)
        if item[0] == 'none':
            lines.append('I none')
        elif item[0] == 'tok':
            lines.append('I tok %d %s %s' % (item[1], fl(item[2]), fl(item[3])))
        elif item[0] == 'invalid':
            lines.append('I invalid %s' % fl(item[1]))
        else:
            lines.append('I custom %d %s' % (err, fl(item[1])))
    lines.append('S %d %d' % (o.dpos, 0x5e71))
    return lines
