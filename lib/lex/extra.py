"""C14 (constructor equivalence) and C15 (clone) on top of the step harness.

Both reduce to *state equality* decided structurally / by z3 on the real constructor and derived
Clone code, plus the one-step results of the shared `next()` MIR (which is generic over the
iterator type, so one body serves `Chars` and any other iterator)."""
import z3

from mirse.exec import State, S, A, E, Ref, Native, FnP, Inconclusive
from mirse import summaries as SM
from . import step as ST


def s_chars_unused(ex, st, fr, text, args):
    """str::chars of the harness's symbolic string: the same character sequence as the iterator input"""
    v = args[0]
    if isinstance(v, Ref):
        v = ex.deref(st, v)
    if isinstance(v, Native) and v.tag == 'symstr':
        return Native('input', (0,))
    raise Inconclusive('chars() of %r' % (v,))


import re
EXTRA_SUMMARIES = []


def values_differ(ex, pc, a, b, path=''):
    """-> None if equal for all assignments satisfying pc, else (path, model|None)"""
    if isinstance(a, S) and isinstance(b, S):
        if a.conc() and b.conc():
            return None if a.v == b.v and a.w == b.w else (path, None)
        x = a.v if not isinstance(a.v, int) else (z3.BoolVal(bool(a.v)) if a.w == 1 else z3.IntVal(a.v))
        y = b.v if not isinstance(b.v, int) else (z3.BoolVal(bool(b.v)) if b.w == 1 else z3.IntVal(b.v))
        try:
            if x.eq(y):
                return None
        except Exception:
            pass
        m = ex.model(list(pc) + [x != y])
        return None if m is None else (path, m)
    if type(a) is not type(b):
        return (path + ' (shape %s vs %s)' % (type(a).__name__, type(b).__name__), None)
    if isinstance(a, A):
        if len(a.f) != len(b.f):
            return (path + ' (arity)', None)
        for i, (x, y) in enumerate(zip(a.f, b.f)):
            r = values_differ(ex, pc, x, y, '%s.%d' % (path, i))
            if r:
                return r
        return None
    if isinstance(a, E):
        if a.v != b.v:
            return (path + ' (variant %s vs %s)' % (a.v, b.v), None)
        for i, (x, y) in enumerate(zip(a.f, b.f)):
            r = values_differ(ex, pc, x, y, '%s.%s.%d' % (path, a.v, i))
            if r:
                return r
        return None
    if isinstance(a, Native):
        if a.tag != b.tag or len(a.p) != len(b.p):
            return (path + ' (native %s vs %s)' % (a.tag, b.tag), None)
        for i, (x, y) in enumerate(zip(a.p, b.p)):
            if isinstance(x, (S, A, E, Native)):
                r = values_differ(ex, pc, x, y, '%s#%d' % (path, i))
                if r:
                    return r
            elif x != y:
                return ('%s#%d' % (path, i), None)
        return None
    if isinstance(a, FnP):
        return None if a.name == b.name else (path + ' (fn)', None)
    if isinstance(a, Ref):
        return None if (a.fid, a.local, a.path) == (b.fid, b.local, b.path) else (path + ' (ref)', None)
    return None if a == b else (path, None)


def field_names(h):
    inv = {i: n for n, i in h.F.items()}
    return inv


def run_c14(h):
    """the four constructors give the same initial state (except the `input` field), and it is the
    boundary state B(Init, Loc::ZERO)"""
    ex = h.ex
    ex.summaries = EXTRA_SUMMARIES + ex.summaries
    h.setup_symbolic()
    out = []
    default_state = None
    lexers = {}
    chars_in = ([S(32, c) for c in h.chars], S(64, h.len))
    for name, kind in (('new_from_iter_with_state', 'iter_state'), ('new_from_iter', 'iter'), ('new_with_state', 'str_state'), ('new', 'str')):
        st = State()
        st.aux['input'] = chars_in
        st.root()['instr'] = Native('symstr', ())
        if default_state is None:
            # Default::default() of the user state through its real (derived) impl
            f = h.prog.find('St', 'default')
            if f is None:
                raise Inconclusive('St::default not found')
            st0, default_state = h.one(ex.call_fn(State(), f, []), 'St::default')
        args = []
        args.append(Native('input', (0,)) if kind.startswith('iter') else Ref(0, 'instr'))
        if kind.endswith('state'):
            args.append(default_state)
        res = ex.call_fn(st, h.fn(h.L + '_', name), args)
        bad = [r for r in res if r[0] != 'return']
        if bad:
            out.append(ST.Mismatch(['ctor'], 'constructor %s panics: %s' % (name, bad[0][2]), h.best_model(bad[0][1].pc), {'ctor': name}))
        lexers[name] = [(s2, v) for k, s2, v in res if k == 'return']
    names = field_names(h)
    # the constructor the others are compared with: one that does not branch on its input
    ref_name = None
    for cand in ('new_from_iter_with_state', 'new_with_state', 'new_from_iter', 'new'):
        if len(lexers[cand]) == 1:
            ref_name = cand
            break
    if ref_name is None:
        raise Inconclusive('every constructor branches on its input (%s paths)' % ', '.join('%s: %d' % (k, len(v)) for k, v in lexers.items()))
    ref_inner = lexers[ref_name][0][1].f[0]
    # boundary state
    ent = h.entries()[0]
    F = h.F
    checks = [('__state', S(64, ent[0])), ('__initial_state', S(64, ent[1])), ('__done', S(1, 0)),
              ('iter_loc', A((S(32, 0), S(32, 0), S(64, 0)))), ('current_match_start', A((S(32, 0), S(32, 0), S(64, 0)))),
              ('current_match_end', A((S(32, 0), S(32, 0), S(64, 0)))), ('last_match', E('None')),
              ('__iter', A((Native('input', (0,)), E('None')))), ('user_state', default_state)]
    for cname, paths in lexers.items():
      for (st, lx) in paths:
        inner = lx.f[0]
        for fname, want in checks:
            d = values_differ(ex, st.pc, inner.f[F[fname]], want, fname)
            if d:
                out.append(ST.Mismatch(['ctor'], 'constructor %s: field %s is not that of the initial boundary state (%s)' % (cname, fname, d[0]), d[1] or h.best_model(st.pc), {'ctor': cname}, post=True))
        for i in range(len(inner.f)):
            if names.get(i) == 'input':
                continue
            d = values_differ(ex, st.pc, inner.f[i], ref_inner.f[i], names.get(i, str(i)))
            if d:
                out.append(ST.Mismatch(['ctor'], 'constructors %s and %s differ in field %s' % (cname, ref_name, d[0]), d[1] or h.best_model(st.pc), {'ctor': cname}, post=True))
    h.stats['paths'] += 4
    h.cover('token')
    return out


def run_c15(h, rho, prepeek, done):
    """clone at every boundary state reached by one call from B(rho, L, prepeek, done): the clone
    (through the real derived Clone impls) is structurally equal to the original"""
    ex = h.ex
    h.setup_symbolic()
    out = []
    st0 = h.make_start(rho, prepeek, done)
    starts = [st0]
    if prepeek:
        starts = [s for k, s, v in ex.call_fn(st0, h.fn(h.L + '_', 'peek'), [Ref(0, 'lx')]) if k == 'return']
    clone_fn = h.fn(h.L + '_', 'clone')
    nxt = h.fn(h.L + '_', 'next')

    def check_clone(s, where):
        res = ex.call_fn(s.fork(), clone_fn, [Ref(0, 'lx')])
        for kind, s2, val in res:
            h.stats['paths'] += 1
            if kind != 'return':
                out.append(ST.Mismatch(['clone'], 'clone() panics %s' % where, ex.model(s2.pc), {}))
                continue
            d = values_differ(ex, s2.pc, val, s2.root()['lx'], 'lexer')
            if d:
                out.append(ST.Mismatch(['clone'], 'clone %s differs from the original in %s' % (where, d[0]), d[1] or h.best_model(s2.pc), {}))
            d = values_differ(ex, s2.pc, s2.root()['lx'], s.root()['lx'], 'lexer')
            if d:
                out.append(ST.Mismatch(['clone'], 'clone() modified the original (%s)' % d[0], d[1] or h.best_model(s2.pc), {}))
    def same_stream(s, where):
        """clone, advance the original by one call, then advance the clone by one call in the same world: the two
        items must be equal (they start from equal states; anything else means state shared outside the lexer)"""
        res = ex.call_fn(s.fork(), clone_fn, [Ref(0, 'lx')])
        for kind, s2, cl in res:
            if kind != 'return':
                continue
            s2.root()['cl'] = cl
            s2.events = []
            dbase = len(s2.aux.get('decisions', ()))
            s2.aux['dec_base'] = dbase
            for k1, s3, v1 in ex.call_fn(s2, nxt, [Ref(0, 'lx')]):
                h.stats['paths'] += 1
                if k1 != 'return':
                    continue
                ev1 = list(s3.events)
                s3.events = []
                # the clone's user state is a copy: its actions read the same decisions the original's actions read
                s3.aux['script'] = list(s3.aux.get('decisions', ())[dbase:])
                s3.aux['decisions'] = ()
                for k2, s4, v2 in ex.call_fn(s3, nxt, [Ref(0, 'cl')]):
                    h.stats['paths'] += 1
                    if k2 != 'return':
                        out.append(ST.Mismatch(['clone'], 'next() on the clone panics after the original advanced (%s)' % where, h.best_model(s4.pc), {}))
                        continue
                    d = values_differ(ex, s4.pc, v1, v2, 'item')
                    if d:
                        out.append(ST.Mismatch(['clone'], 'after the original advanced, the clone yields a different item for the same input (%s): %s' % (where, d[0]), d[1] or h.best_model(s4.pc), {}))
                    else:
                        de = events_differ(s4, ev1, s4.events)
                        if de:
                            out.append(ST.Mismatch(['clone'], 'the actions of the clone see something else than the actions of the original saw (%s): %s' % (where, de[0]), de[1] or h.best_model(s4.pc), {}))
    def events_differ(sx, ev_a, ev_b):
        """action logs (rule, match_loc, peek[, match_ slice]) of two calls: None | (what, model)"""
        if len(ev_a) != len(ev_b):
            return ('number of actions %d / %d' % (len(ev_a), len(ev_b)), None)
        for j, (a_, b_) in enumerate(zip(ev_a, ev_b)):
            for q, (x_, y_) in enumerate(zip(a_, b_)):
                d_ = values_differ(ex, sx.pc, x_, y_, 'action %d %s' % (j, ('rule', 'match_loc', 'peek', 'match_')[min(q, 3)]))
                if d_:
                    return d_
        return None

    def run_ahead(s, where):
        """only when next()/clone() touch state outside the lexer value: the original runs to the end of its stream
        (all calls), then the clone makes its first call - it must yield what the original's first call yielded"""
        res = ex.call_fn(s.fork(), clone_fn, [Ref(0, 'lx')])
        for kind, s2, cl in res:
            if kind != 'return' or not getattr(ex, 'hidden_state', False):
                continue
            s2.root()['cl'] = cl
            dbase = len(s2.aux.get('decisions', ()))
            s2.aux['dec_base'] = dbase

            def go(sx, k, first, script1, ev_first=None):
                sx.events = []
                for k1, s3, v1 in ex.call_fn(sx, nxt, [Ref(0, 'lx')]):
                    h.stats['paths'] += 1
                    if k1 != 'return':
                        continue
                    f1 = first if first is not None else v1
                    ev1 = ev_first if ev_first is not None else list(s3.events)
                    sc1 = script1 if script1 is not None else list(s3.aux.get('decisions', ())[dbase:])
                    ended = isinstance(v1, E) and v1.v == 'None'
                    if not ended and k > 0:
                        s3.aux['dec_base'] = len(s3.aux.get('decisions', ()))
                        go(s3, k - 1, f1, sc1, ev1)
                        continue
                    s3.events = []
                    s3.aux['script'] = list(sc1)
                    s3.aux['decisions'] = ()
                    for k2, s4, v2 in ex.call_fn(s3, nxt, [Ref(0, 'cl')]):
                        h.stats['paths'] += 1
                        if k2 != 'return':
                            out.append(ST.Mismatch(['clone'], 'next() on the clone panics after the original ran ahead (%s)' % where, h.best_model(s4.pc), {}))
                            continue
                        d = values_differ(ex, s4.pc, f1, v2, 'item') or events_differ(s4, ev1, s4.events)
                        if d:
                            out.append(ST.Mismatch(['clone'], 'after the original ran to the end of its stream, the clone yields a different first item / action log than the original did (%s): %s' % (where, d[0]), d[1] or h.best_model(s4.pc), {}))
            go(s2, h.N + 1, None, None)

    from mirse.exec import OverBudget
    try:
        for s in starts:
            check_clone(s, 'at the start state')
            if not prepeek and not done:
                same_stream(s, 'cloned at the start state')
            s.events = []
            for kind, s2, val in ex.call_fn(s.fork(), nxt, [Ref(0, 'lx')]):
                h.stats['paths'] += 1
                if kind != 'return':
                    continue
                got = h.item_shape(val)
                h.cover({'tok': 'token', 'invalid': 'invalid', 'custom': 'custom', 'none': 'none'}[got[0]])
                check_clone(s2, 'after an item of kind ' + got[0])
            if not prepeek and not done and not out:
                # the expensive schedule last, and only if nothing was found yet
                run_ahead(s, 'cloned at the start state')
    except OverBudget:
        if not out:
            raise
        # counterexamples found before the budget ran out are kept
    return out
