"""The one-step harness: the real generated `next()` (MIR) from an arbitrary boundary state versus
the reference interpreter, for ALL inputs of at most N remaining characters, all start locations,
all action decisions - every path and every comparison decided by z3.

Mismatches are classified by *aspect* so that each property's check reports only what that
property states (see ASPECTS)."""
import re
import time

import z3

from mirse.exec import (Executor, Program, State, S, A, E, Ref, FnP, Native, UNIT, Inconclusive, Fork,
                        PanicResult, mask)
from mirse import summaries as SM
from . import regex as R
from .regex import EOF
from .spec import Oracle, Need, RefAbort, RefState, ref_next

# aspect -> properties whose statement it belongs to
ASPECTS = {
    'match':     ['C01'],            # which rule / lexeme was selected (maximal munch, priority, rewind)
    'lang':      ['C02'],            # single-rule lexers: membership in the regex's language
    'ruleset':   ['C03'],            # active rule set after the call / switch target / isolation
    'ctx':       ['C04'],            # a right context was involved in the disagreement
    'eof':       ['C05'],            # end-of-input protocol ($, None in Init, error elsewhere, done flag)
    'dropped':   ['C05'],            # characters consumed without being part of a match or error
    'loc':       ['C06'],            # token / action locations
    'error':     ['C07'],            # error raised or not, kind, payload
    'errloc':    ['C07'],            # error location
    'recover':   ['C08'],            # position / rule set / match state after a failure
    'panic':     ['C09'],
    'progress':  ['C09'],            # no progress / stale saved match / too many actions
    'actions':   ['C10'],            # action log: count, order, match_loc, peek, user state
    'ctor':      ['C14'],
    'clone':     ['C15'],
}


def props_of(aspects):
    out = set()
    for a in aspects:
        out.update(ASPECTS[a])
    return out


class Mismatch:
    def __init__(self, aspects, what, model=None, detail=None, post=False):
        self.aspects = set(aspects)
        self.what = what
        self.model = model
        self.detail = detail or {}
        self.post = post        # disagreement about the state after the call, not about what it returned

    def __repr__(self):
        return 'Mismatch(%s: %s)' % (sorted(self.aspects), self.what)


# ------------------------------------------------------------------------------------------------
# harness-side summaries

def s_vlog(ex, st, fr, text, args):
    st.events.append((args[0], args[1], args[2]))
    return UNIT


def s_vlog_str(ex, st, fr, text, args):
    st.events.append((args[0], args[1], args[2], args[3]))
    return UNIT


def str_lit(text):
    """value of a string constant as printed in MIR (`"..."` with Rust escapes)"""
    if len(text) >= 2 and text[0] == '"' and text[-1] == '"':
        body = text[1:-1]
        body = re.sub(r'\\u\{([0-9a-fA-F]+)\}', lambda m: chr(int(m.group(1), 16)), body)
        for a_, b_ in (('\\n', '\n'), ('\\t', '\t'), ('\\r', '\r'), ('\\0', '\0'), ('\\"', '"'), ("\\'", "'"), ('\\\\', '\\')):
            body = body.replace(a_, b_)
        return body
    return text


def s_chars(ex, st, fr, text, args):
    """str::chars of the harness's symbolic string: the same character sequence as the iterator input"""
    v = args[0]
    if isinstance(v, Ref):
        v = ex.deref(st, v)
    if isinstance(v, Native) and v.tag == 'symstr':
        return Native('input', (v.p[0] if v.p else 0,))
    if isinstance(v, Native) and v.tag == 'str':
        return Native('vecit', (tuple(S(32, ord(c_)) for c_ in str_lit(v.p[0])), 0))
    raise Inconclusive('chars() of %r' % (v,))


def s_is_ascii(ex, st, fr, text, args):
    """str::is_ascii of the symbolic input string"""
    v = args[0]
    if isinstance(v, Ref):
        v = ex.deref(st, v)
    if not (isinstance(v, Native) and v.tag == 'symstr'):
        raise Inconclusive('is_ascii on %r' % (v,))
    chars, ln = st.aux['input']
    terms = []
    for j, c in enumerate(chars):
        if c.conc() and ln.conc():
            if j < ln.v and c.v >= 128:
                return S(1, 0)
        else:
            terms.append(z3.Or(zi(ln) <= j, zi(c) < 128))
    if not terms:
        return S(1, 1)
    return S(1, z3.And(*terms))


def s_str_index_from(ex, st, fr, text, args):
    """<str as Index<RangeFrom<usize>>>::index on the symbolic string: the suffix starting at the character whose byte
    offset is the (concrete or symbolic) start; panics if that is not a char boundary"""
    v = args[0]
    if isinstance(v, Ref):
        v = ex.deref(st, v)
    if not (isinstance(v, Native) and v.tag == 'symstr'):
        raise Inconclusive('str index on %r' % (v,))
    base = v.p[0] if v.p else 0
    a = zi(args[1].f[0])
    chars, ln = st.aux['input']
    # byte offsets of the characters relative to the start of the string
    offs = [z3.IntVal(0)]
    for c in chars:
        offs.append(offs[-1] + SM.len_utf8_term(c).v if not c.conc() else offs[-1] + SM.len_utf8_term(c).v)
    branches = []
    conds = []
    for j in range(base, len(chars) + 1):
        cj = z3.And(a == offs[j] - offs[base] + 0 if base == 0 else a == offs[j] - offs[base], zi(ln) >= j)
        conds.append(cj)
        branches.append((cj, (lambda jj: (lambda s2: Native('symstr', (jj,))))(j)))
    branches.append((z3.Not(z3.Or(*conds)), lambda s2: PanicResult('byte index is not a char boundary in str slicing')))
    return Fork(branches)


def s_str_get_from(ex, st, fr, text, args):
    """str::get(a..): Some(suffix) if a is a char boundary of the string (or its length), else None"""
    v = args[0]
    if isinstance(v, Ref):
        v = ex.deref(st, v)
    a = zi(args[1].f[0])
    if isinstance(v, Native) and v.tag == 'str':
        text_ = str_lit(v.p[0])
        offs = [0]
        for c_ in text_:
            offs.append(offs[-1] + len(c_.encode('utf-8')))
        branches = [((a == o), (lambda jj: (lambda s2: E('Some', (Native('str', (text_[jj:],)),))))(j)) for j, o in enumerate(offs)]
        branches.append((z3.And(*[a != o for o in offs]), lambda s2: E('None')))
        return Fork(branches)
    if not (isinstance(v, Native) and v.tag == 'symstr'):
        raise Inconclusive('str::get on %r' % (v,))
    chars, ln = st.aux['input']
    base, offs = _offsets_of(st, v, chars)
    branches = []
    conds = []
    for j in range(base, len(chars) + 1):
        cj = z3.And(a == offs[j], zi(ln) >= j)
        conds.append(cj)
        branches.append((cj, (lambda jj: (lambda s2: E('Some', (Native('symstr', (jj,)),))))(j)))
    branches.append((z3.Not(z3.Or(*conds)), lambda s2: E('None')))
    return Fork(branches)


def s_str_len(ex, st, fr, text, args):
    """str::len: byte length of a string constant, or of the symbolic input string (sum of the UTF-8 lengths of the
    characters below the symbolic length)"""
    v = args[0]
    if isinstance(v, Ref):
        v = ex.deref(st, v)
    if isinstance(v, Native) and v.tag == 'str':
        return S(64, len(str_lit(v.p[0]).encode('utf-8')))
    if not (isinstance(v, Native) and v.tag == 'symstr'):
        raise Inconclusive('str::len on %r' % (v,))
    base = v.p[0] if v.p else 0
    chars, ln = st.aux['input']
    total = z3.IntVal(0)
    for j in range(base, len(chars)):
        total = total + z3.If(zi(ln) > j, SM.len_utf8_term(chars[j]).v, 0)
    return S(64, z3.simplify(total))


def _offsets_of(st, v, chars):
    """(base, offs): offs[j] = the byte index, in the coordinates of the string value v, of the boundary before
    character j.  The whole input (`symstr` without a base) is indexed by the lexer's absolute byte indices (the
    symbolic start location lies before its first modelled character); a suffix view is indexed from its own start"""
    base = v.p[0] if v.p else 0
    if not v.p:
        return 0, _abs_offsets(st, chars)
    rel = [z3.IntVal(0)]
    for c in chars:
        rel.append(rel[-1] + SM.len_utf8_term(c).v)
    return base, [r - rel[base] for r in rel]


def _abs_offsets(st, chars):
    """byte offsets of the characters of the symbolic input string, in the coordinates of the lexer's byte indices
    (the symbolic start location is part of them)"""
    bounds = st.aux.get('str_bounds')
    if bounds is not None and len(bounds) == len(chars) + 1:
        return [t for t, ok in bounds]
    offs = [z3.IntVal(0)]
    for c in chars:
        offs.append(offs[-1] + SM.len_utf8_term(c).v)
    return offs


def s_str_as_bytes(ex, st, fr, text, args):
    """str::as_bytes: the bytes of a string constant, or a view of the symbolic input string"""
    v = args[0]
    if isinstance(v, Ref):
        v = ex.deref(st, v)
    if isinstance(v, Native) and v.tag == 'str':
        return Native('vec', (tuple(S(8, b_) for b_ in str_lit(v.p[0]).encode('utf-8')),))
    if isinstance(v, Native) and v.tag == 'symstr':
        return Native('symbytes', tuple(v.p))
    raise Inconclusive('as_bytes of %r' % (v,))


def s_bytes_get(ex, st, fr, text, args):
    """<[u8]>::get(i) on the bytes of the symbolic input string: the first byte of the character that starts at byte
    offset i (None at and beyond the length; an offset inside a character is not modelled)"""
    v, a_ = args
    if isinstance(v, Ref):
        v = ex.deref(st, v)
    if isinstance(v, Native) and v.tag == 'vec':
        el = v.p[0]
        def mkc(jj):
            def th(s2):
                k_ = '__byte%d' % len(s2.root())
                s2.root()[k_] = el[jj]
                return E('Some', (Ref(0, k_, ()),))
            return th
        if a_.conc():
            return mkc(a_.v)(st) if a_.v < len(el) else E('None')
        a = zi(a_)
        br = [((a == j), mkc(j)) for j in range(len(el))]
        br.append((a >= len(el), lambda s2: E('None')))
        return Fork(br)
    if not (isinstance(v, Native) and v.tag == 'symbytes'):
        raise Inconclusive('slice::get on %r' % (v,))
    a = zi(a_)
    chars, ln = st.aux['input']
    base, offs = _offsets_of(st, v, chars)
    branches = []
    conds = []

    def first_byte(c):
        x = zi(c)
        return z3.If(x < 0x80, x, z3.If(x < 0x800, 0xC0 + x / 64, z3.If(x < 0x10000, 0xE0 + x / 4096, 0xF0 + x / 262144)))
    for j in range(base, len(chars)):
        cj = z3.And(a == offs[j], zi(ln) > j)
        conds.append(cj)
        def mk(jj):
            def th(s2):
                k_ = '__byte%d' % len(s2.root())
                s2.root()[k_] = S(8, z3.simplify(first_byte(chars[jj])))
                return E('Some', (Ref(0, k_, ()),))
            return th
        branches.append((cj, mk(j)))
    total = offs[base]
    end_conds = []
    for j in range(base, len(chars) + 1):
        end_conds.append(z3.And(zi(ln) == j, a >= offs[j]))
    ec = z3.Or(*end_conds)
    branches.append((ec, lambda s2: E('None')))
    def limit(s2):
        raise Inconclusive('byte offset inside a character of the symbolic string (bytes other than the first of a character are not modelled)')
    branches.append((z3.Not(z3.Or(ec, *conds)), limit))
    return Fork(branches)


def s_char_from_u8(ex, st, fr, text, args):
    return S(32, args[0].v)


def s_str_strip_prefix_char(ex, st, fr, text, args):
    """str::strip_prefix(c: char): Some(rest) when the string starts with c"""
    v, c = args
    if isinstance(v, Ref):
        v = ex.deref(st, v)
    if isinstance(v, Native) and v.tag == 'str':
        t_ = str_lit(v.p[0])
        if not c.conc():
            raise Inconclusive('strip_prefix with a symbolic character on a constant')
        return E('Some', (Native('str', (t_[1:],)),)) if t_[:1] == chr(c.v) else E('None')
    if not (isinstance(v, Native) and v.tag == 'symstr'):
        raise Inconclusive('strip_prefix on %r' % (v,))
    base = v.p[0] if v.p else 0
    chars, ln = st.aux['input']
    if base >= len(chars):
        return E('None')
    hit = z3.And(zi(ln) > base, zi(chars[base]) == zi(c))
    return Fork([(hit, lambda s2: E('Some', (Native('symstr', (base + 1,)),))), (z3.Not(hit), lambda s2: E('None'))])


def s_str_index(ex, st, fr, text, args):
    """<str as Index<Range<usize>>>::index on the symbolic input string: panics unless start <= end and both
    are char boundaries of the string (byte offsets of c0.. relative to the symbolic start location)"""
    v = args[0]
    if isinstance(v, Ref):
        v = ex.deref(st, v)
    if not (isinstance(v, Native) and v.tag == 'symstr'):
        raise Inconclusive('str index on %r' % (v,))
    rg = args[1]
    a, b = rg.f[0], rg.f[1]
    bounds = st.aux.get('str_bounds')
    if bounds is None:
        raise Inconclusive('no string bounds')
    za, zb = zi(a), zi(b)
    ona = z3.Or(*[z3.And(za == t, ok) for t, ok in bounds])
    onb = z3.Or(*[z3.And(zb == t, ok) for t, ok in bounds])
    good = z3.And(za <= zb, ona, onb)
    return Fork([(good, lambda s2: Native('strslice', (a, b))),
                 (z3.Not(good), lambda s2: PanicResult('byte index is not a char boundary / out of range in match_()'))])


def s_decide(ex, st, fr, text, args):
    n = args[1]
    if not n.conc():
        raise Inconclusive('symbolic choice count')
    script = st.aux.get('script')
    self_ref = args[0]

    def choose(d):
        def th(s2):
            s2.aux['decisions'] = s2.aux.get('decisions', ()) + (d,)
            ust = ex.deref(s2, self_ref)
            f = list(ust.f)
            f[1] = S(64, f[1].v + 1)
            ex.assign_ref(s2, self_ref, A(f))
            return S(8, d)
        return th
    if script is not None:
        # concrete mode (validation): mirror rt::St::decide
        pos = len(st.aux.get('decisions', ()))
        d = script[pos] if pos < len(script) else 0
        d = min(d, n.v - 1)
        return choose(d)(st)
    # stated bound: at most MAX_DYN dynamic decisions inside one next() call (longer decision
    # histories inside a single call are outside the claim; across calls they are unbounded by induction)
    if len(st.aux.get('decisions', ())) - st.aux.get('dec_base', 0) >= MAX_DYN[0]:
        return Fork([])
    return Fork([(None, choose(d)) for d in range(n.v)])


MAX_DYN = [2]

HARNESS_SUMMARIES = [
    (re.compile(r'(^|::)vlog$'), s_vlog),
    (re.compile(r'(^|::)vlog_str$'), s_vlog_str),
    (re.compile(r'core::str::<impl str>::chars$'), s_chars),
    (re.compile(r'core::str::<impl str>::is_ascii$'), s_is_ascii),
    (re.compile(r'^<str as (std::ops::)?Index<(std::ops::)?Range<usize>>>::index$'), s_str_index),
    (re.compile(r'^<str as (std::ops::)?Index<(std::ops::)?RangeFrom<usize>>>::index$'), s_str_index_from),
    (re.compile(r'^core::str::<impl str>::get::<(std::ops::)?RangeFrom<usize>>$'), s_str_get_from),
    (re.compile(r'^core::str::<impl str>::len$'), s_str_len),
    (re.compile(r'^core::str::<impl str>::strip_prefix::<char>$'), s_str_strip_prefix_char),
    (re.compile(r'^core::str::<impl str>::as_bytes$'), s_str_as_bytes),
    (re.compile(r'^core::slice::<impl \[u8\]>::get::<usize>$'), s_bytes_get),
    (re.compile(r'^<char as (std::convert::)?From<u8>>::from$'), s_char_from_u8),
    (re.compile(r'(^|::)St::decide$|^rt::<impl at [^>]*>::decide$|St>::decide$'), s_decide),
]


def read_tags(prog, modname, names):
    """variant name -> discriminant of the generated rule enum, from the MIR of `tag`"""
    f = prog.by_name.get('%s::tag' % modname)
    if f is None:
        raise Inconclusive('no tag function for ' + modname)
    out = {}
    sw = None
    for b, ins in f.blocks.items():
        for st in ins:
            if st[0] == 'switch':
                sw = st

    def const_of(bb):
        for st in f.blocks[bb]:
            if st[0] == 'assign' and st[1] == (0, ()) and st[2][0] == 'use' and st[2][1][0] == 'const':
                return st[2][1][1][2]
        return None
    if sw is None:
        c = const_of(0)
        out[names[c - 100]] = 0
        return out
    for disc, bb in sw[2]:
        c = const_of(bb)
        if c is not None:
            out[names[c - 100]] = disc
    if sw[3] is not None:
        c = const_of(sw[3])
        if c is not None and names[c - 100] not in out:
            used = set(out.values())
            cand = [x for x in range(len(names)) if x not in used]
            if len(cand) == 1:
                out[names[c - 100]] = cand[0]
    if len(out) != len(names):
        raise Inconclusive('could not read rule enum discriminants of ' + modname)
    return out


def lexer_fields(prog):
    """field name -> index of lexgen_util::Lexer, from a struct aggregate that builds it (normally in its
    constructor; any function of the dump will do)"""
    cands = []
    f0 = prog.find('Lexer', 'new_from_iter_with_state')
    fns = ([f0] if f0 is not None else []) + [f for f in prog.fns if f is not f0]
    for f in fns:
        for b, ins in f.blocks.items():
            for st in ins:
                if st[0] == 'assign' and st[2][0] == 'struct' and re.match(r'^(lexgen_util::)?Lexer(::<|$| )', st[2][1]):
                    names = [name for name, _ in st[2][2]]
                    if '__state' in names and '__iter' in names:
                        return {name: i for i, name in enumerate(names)}
    raise Inconclusive('no struct aggregate of lexgen_util::Lexer found in the MIR dump')


class StepHarness:
    def __init__(self, prog, idx, d, N, fields=None):
        self.prog = prog
        self.idx = idx
        self.d = d
        self.N = N
        self.mod = 'd%d' % idx
        self.L = 'L%d' % idx
        self.ex = Executor(prog, HARNESS_SUMMARIES + SM.TABLE)
        self.ex.overrides = list(HARNESS_SUMMARIES)
        self.names = d.rs_names()
        tags = read_tags(prog, self.mod, self.names)
        self.ex.discr.update(tags)
        self.F = fields or lexer_fields(prog)
        self.comp = d.compiled()
        self.part = self.comp.part
        self.nl_class = self.part.class_of(10)
        self.tab_class = self.part.class_of(9)
        self.stats = {'paths': 0, 'ref_outcomes': 0, 'queries': 0, 'covers': {}}
        self.entry = None
        self.recursion_reported = False
        self.ctor_anomalies = []
        self._loc_cache = {}
        self.max_mismatches = 40
        self.width_table = None      # set by the driver: [(lo, hi, width)] of unicode-width answers != Some(1)
        self.width_keys = []
        self.width_facts = []

    # ------------------------------------------------------------------ symbolic input
    def setup_symbolic(self):
        ex = self.ex
        N = self.N
        ex.reset_solver(30000)
        self._cc = {}
        self.width_facts = []
        self.chars = [z3.Int('c%d' % j) for j in range(N)]
        self.len = z3.Int('len')
        self.Lline, self.Lcol, self.Lbyte = z3.Int('L_line'), z3.Int('L_col'), z3.Int('L_byte')
        self.err = z3.Int('err')
        base = [self.len >= 0, self.len <= N, self.err >= 0, self.err < 2 ** 32]
        for c in self.chars:
            base.append(z3.And(c >= 0, c <= R.MAXCP, z3.Or(c < R.SUR_LO, c > R.SUR_HI)))
            base.append(SM.width_axiom(c))
        # headroom: locations far enough from the integer limits (stated bound)
        base += [self.Lline >= 0, self.Lline <= 2 ** 32 - 1 - (N + 1), self.Lcol >= 0, self.Lcol <= 2 ** 32 - 1 - 4 * (N + 1),
                 self.Lbyte >= 0, self.Lbyte <= 2 ** 64 - 1 - 4 * (N + 1)]
        ex.solver.add(*base)
        self._loc_cache = {}

    def loc_value(self, line, col, byte):
        return A((S(32, line), S(32, col), S(64, byte)))

    def loc_at(self, pos, syms=None):
        """reference location of input position pos (z3 Int terms), scanning from L.  With the class
        word `syms` of the enumerated reference behaviour the newline / tab case split is already
        decided (newline and tab are classes of their own), so the terms are plain sums."""
        key = (pos, tuple(syms.get(j) for j in range(pos)) if syms is not None else None)
        if key in self._loc_cache:
            return self._loc_cache[key]
        if pos == 0:
            v = (self.Lline, self.Lcol, self.Lbyte)
        else:
            line, col, byte = self.loc_at(pos - 1, syms)
            c = self.chars[pos - 1]
            w = SM.width_value(S(32, c), 1).v
            k = syms.get(pos - 1) if syms is not None else None
            byte2 = byte + SM.len_utf8_term(S(32, c)).v
            if k is not None and k != EOF and k == self.nl_class:
                v = (line + 1, z3.IntVal(0), byte2)
            elif k is not None and k != EOF and k == self.tab_class:
                v = (line, col + 4, byte2)
            elif k is not None and k != EOF:
                v = (line, col + w, byte2)
            else:
                nl = c == 10
                tab = c == 9
                v = (z3.If(nl, line + 1, line), z3.If(nl, z3.IntVal(0), z3.If(tab, col + 4, col + w)), byte2)
        self._loc_cache[key] = v
        return v

    def class_cond(self, i, k):
        key = (i, k)
        v = self._cc.get(key)
        if v is None:
            c = self.chars[i]
            ivs = self.part.classes[k]
            terms = [z3.And(c >= lo, c <= hi) if lo != hi else c == lo for lo, hi in ivs]
            v = z3.And(self.len > i, z3.Or(*terms) if len(terms) > 1 else terms[0])
            self._cc[key] = v
        return v

    def eof_cond(self, i):
        key = (i, 'eof')
        v = self._cc.get(key)
        if v is None:
            v = self.len <= i
            self._cc[key] = v
        return v

    def sym_of_model(self, m, i):
        n = m.eval(self.len, model_completion=True).as_long()
        if i >= n or i >= self.N:
            return EOF
        cp = m.eval(self.chars[i], model_completion=True).as_long()
        return self.part.class_of(cp)

    # ------------------------------------------------------------------ start state
    def fn(self, head, method):
        f = self.prog.find(head, method)
        if f is None:
            raise Inconclusive('function %s::%s not found in MIR dump' % (head, method))
        return f

    def one(self, res, what):
        ok = [r for r in res if r[0] == 'return']
        if len(res) != 1 or len(ok) != 1:
            raise Inconclusive('%s: expected a single path, got %r' % (what, [(r[0], r[2]) for r in res]))
        return ok[0][1], ok[0][2]

    def make_start(self, rho, prepeek=False, done=False, symbolic=True, concrete=None):
        """-> State with root['lx'] = lexer at boundary B(rho, L)."""
        ex = self.ex
        st = State()
        if symbolic:
            st.aux['input'] = ([S(32, c) for c in self.chars], S(64, self.len))
            ust = A((Native('script', ()), S(64, 0), S(32, self.err), S(32, 0x5e71)))
        else:
            cps, script, err = concrete
            st.aux['input'] = ([S(32, c) for c in cps], S(64, len(cps)))
            st.aux['script'] = list(script)
            ust = A((Native('script', ()), S(64, 0), S(32, err), S(32, 0x5e71)))
        if self.d.str_input:
            st.root()['instr'] = Native('symstr', ())
            paths = [(s_, v_) for k_, s_, v_ in ex.call_fn(st, self.fn(self.L + '_', 'new_with_state'), [Ref(0, 'instr'), ust]) if k_ == 'return']
            plain = []
            for s_, v_ in paths:
                try:
                    it_ = v_.f[0].f[self.F['__iter']]
                    untouched = isinstance(it_, A) and isinstance(it_.f[0], Native) and it_.f[0].tag == 'input' and it_.f[0].p[0] == 0
                except Exception:
                    untouched = False
                if untouched:
                    plain.append((s_, v_))
                elif symbolic:
                    # the constructor itself consumed / skipped characters on this path: the stream no longer starts at
                    # the first character of the input (kept for run_step, which reports it)
                    self.ctor_anomalies.append(s_)
            if len(plain) != 1:
                raise Inconclusive('constructor: expected a single path that leaves the input untouched, got %d of %d' % (len(plain), len(paths)))
            st, lx = plain[0]
            if symbolic:
                st.aux['str_bounds'] = [(self.loc_at(k)[2], self.len >= k) for k in range(self.N + 1)]
            else:
                cps_ = concrete[0]
                offs = [0]
                for cp in cps_:
                    offs.append(offs[-1] + (1 if cp < 0x80 else 2 if cp < 0x800 else 3 if cp < 0x10000 else 4))
                st.aux['str_bounds'] = [(z3.IntVal(o), True) for o in offs]
                st.aux['str_offsets'] = offs
        else:
            it = Native('input', (0,))
            st, lx = self.one(ex.call_fn(st, self.fn(self.L + '_', 'new_from_iter_with_state'), [it, ust]), 'constructor')
        st.root()['lx'] = lx
        if rho != 0:
            st, _ = self.one(ex.call_fn(st, self.fn(self.L + '_', 'switch'), [Ref(0, 'lx'), E(self.names[rho])]), 'switch')
        if symbolic:
            L = self.loc_value(self.Lline, self.Lcol, self.Lbyte)
            inner = st.root()['lx'].f[0]
            f = list(inner.f)
            for nm in ('iter_loc', 'current_match_start', 'current_match_end'):
                f[self.F[nm]] = L
            if done:
                f[self.F['__done']] = S(1, 1)
            st.root()['lx'] = A((A(f),))
        return st

    def entries(self):
        """rule set index -> (state, initial_state) as set by the real `switch`"""
        if self.entry is None:
            self.entry = {}
            for rho in range(len(self.names)):
                st = self.make_start(rho, symbolic=False, concrete=([], [], 0))
                inner = st.root()['lx'].f[0]
                self.entry[rho] = (inner.f[self.F['__state']].v, inner.f[self.F['__initial_state']].v)
        return self.entry

    # ------------------------------------------------------------------ one symbolic step
    def run_step(self, rho, prepeek=False, done=False, ncalls=1):
        """-> list of Mismatch"""
        self.setup_symbolic()
        ent = self.entries()
        ex = self.ex
        self.ctor_anomalies = []
        st0 = self.make_start(rho, prepeek, done)
        starts = [st0]
        early = []
        if rho == 0 and not prepeek and not done:
            for s_ in self.ctor_anomalies[:2]:
                m_ = self.best_model(s_.pc)
                if m_ is not None:
                    early.append(Mismatch(['dropped', 'loc', 'ctor'], 'the &str constructor consumes or skips characters of the input before the first call '
                                          '(byte indices and the character stream no longer refer to the input as given)', m_, {'expected': 'stream starts at the first character'}, post=True))
        if prepeek:
            starts = []
            for kind, s2, v in ex.call_fn(st0, self.fn(self.L + '_', 'peek'), [Ref(0, 'lx')]):
                if kind != 'return':
                    return [Mismatch(['panic'], 'peek() panics: %s' % v, ex.model(s2.pc))]
                starts.append(s2)
        out = list(early)
        ref0 = RefState(0, rho, 0, done)
        for s in starts:
            s.events = []
            self.explore(s, ref0, ncalls, out, [])
        return out

    def explore(self, st, refst, ncalls, out, trail, depth=0):
        ex = self.ex
        ust_before = st.root()['lx'].f[0].f[self.F['user_state']]
        ndec_before = len(st.aux.get('decisions', ()))
        st.aux['dec_base'] = ndec_before
        nxt = self.fn(self.L + '_', 'next')
        ex.watch_fn = nxt.name
        st.aux['rec_depth'] = 0
        for kind, s2, val in ex.call_fn(st, nxt, [Ref(0, 'lx')]):
            self.stats['paths'] += 1
            if len(out) >= self.max_mismatches:
                return          # enough counterexamples for this definition; the rest is not explored
            if s2.aux.get('rec_depth', 0) >= 1 and not self.recursion_reported:
                # next() called itself: one stack frame per lexeme that is skipped inside the call, so the stack use of
                # a single call grows with the input (confirmed natively with a long run of such lexemes)
                self.recursion_reported = True
                m_ = self.best_model(s2.pc)
                if m_ is not None:
                    out.append(Mismatch(['progress'], 'next() calls itself (recursion depth %d within one call on a short input): stack use grows with the number of lexemes skipped in one call' % (s2.aux['rec_depth'] + 1),
                                        m_, {'trail': trail, 'decisions': tuple(s2.aux.get('decisions', ())), 'expected': 'an iterative next()'}))
            if ex.deadline is not None and time.process_time() > ex.deadline:
                from mirse.exec import OverBudget
                raise OverBudget('time budget for this definition exhausted')
            if kind == 'panic':
                m = self.best_model(s2.pc)
                out.append(Mismatch(['panic'], 'next() panics: %s' % val, m, {'trail': trail, 'decisions': tuple(s2.aux.get('decisions', ()))}))
                continue
            for syms, decs_cond, refout in self.enumerate_ref(s2, refst, ndec_before):
                self.stats['ref_outcomes'] += 1
                cond = s2.pc + decs_cond
                rs2, item, events, info = refout
                ms = self.compare(s2, val, cond, rs2, item, events, info, ust_before, ndec_before, syms, refst.ms, refst)
                for m in ms:
                    m.detail['decisions'] = tuple(s2.aux.get('decisions', ()))
                    m.detail['trail'] = trail + [self.describe(item)]
                    m.detail['start_rule_set'] = self.names[refst.rho]
                out.extend(ms)
                post_only = bool(ms) and all(m.post for m in ms)
                ended = (item == ('none',) and rs2.done)
                if ((not ms and ncalls > 1) or (post_only and depth < 1)) and not ended:
                    # either a requested multi-call run, or the call returned the right item but left the
                    # lexer in a state that is not the reference's boundary state: look one call further
                    # for the observable consequence (same input, so the total stays within N)
                    s3 = s2.fork()
                    s3.pc = list(cond)
                    s3.models = []
                    s3.events = []
                    self.explore(s3, rs2, max(ncalls - 1, 1), out, trail + [self.describe(item)], depth + 1)

    def describe(self, item):
        return ' '.join(str(x) for x in item)

    def enumerate_ref(self, st, refst, ndec_before):
        """all reference behaviours consistent with the path condition of st.
        yields (syms, extra constraints, (refstate', item, events, info))"""
        ex = self.ex
        decisions = st.aux.get('decisions', ())[ndec_before:]
        results = []

        def rec(syms, conds, models):
            o = Oracle(syms, decisions)
            rs = refst.copy()
            try:
                item, events, info = ref_next(self.d, o, rs)
            except Need as need:
                i = need.what
                # enumerate the feasible symbols at position i: take one from a model, block it, ask
                # again - (#feasible + 1) solver queries instead of one per class
                blocked = []
                while True:
                    m = None
                    for mm_ in models:
                        if all(not ex.holds(mm_, b) for b in blocked):
                            m = mm_
                            break
                    if m is None:
                        self.stats['queries'] += 1
                        m = ex.model(st.pc + conds + [z3.Not(b) for b in blocked])
                        if m is None:
                            break
                    sym = self.sym_of_model(m, i)
                    c = self.eof_cond(i) if sym == EOF else self.class_cond(i, sym)
                    s2 = dict(syms)
                    s2[i] = sym
                    ok = [x for x in models if ex.holds(x, c)]
                    if m not in ok:
                        ok.append(m)
                    rec(s2, conds + [c], ok)
                    blocked.append(c)
                return
            except RefAbort as e:
                results.append((syms, conds, (rs, ('abort', str(e)), [], {'rules': [], 'eof': False, 'ctx': False, 'rewind': False})))
                return
            info['unused_decisions'] = len(decisions) - o.dpos
            results.append((syms, conds, (rs, item, events, info)))
        rec({}, [], list(st.models))
        return results

    # ------------------------------------------------------------------ comparison
    def neq_loc(self, locval, pos, syms=None, part=None):
        """part: None = whole Loc, 'byte' = byte index only, 'linecol' = line and column only"""
        line, col, byte = self.loc_at(pos, syms)
        a = locval.f
        if part == 'byte':
            return zi(a[2]) != byte
        if part == 'linecol':
            return z3.Or(zi(a[0]) != line, zi(a[1]) != col)
        return z3.Or(zi(a[0]) != line, zi(a[1]) != col, zi(a[2]) != byte)

    def behaves_like_other_ruleset(self, got, rs_before, syms, st):
        """the implementation's item is what the reference produces from another rule set at the same position
        (and, by the caller, not what it produces from the active one)"""
        if rs_before is None or len(self.names) < 2:
            return False
        # isolation along the implementation's own action log: every action that ran must belong to the rule set that
        # was active when it ran (start rule set, changed only by the switches of the actions that ran before it)
        owner_of = {r.gid: ri for ri, (_, rules) in enumerate(self.d.rulesets) for r in rules}
        rule_of = {r.gid: r for _, rules in self.d.rulesets for r in rules}
        cur = rs_before.rho
        for ev_ in st.events:
            g = ev_[0]
            if not g.conc() or g.v not in rule_of:
                break
            r = rule_of[g.v]
            if owner_of[g.v] != cur:
                return True
            if r.kind in ('sw', 'swret'):
                cur = self.names.index(r.target)
            elif r.kind in ('dyn', 'fdyn'):
                break               # the decision decides; not tracked here
        if got[0] == 'tok' and got[1].conc():
            owner = None
            for ri, (_, rules) in enumerate(self.d.rulesets):
                if any(r.gid == got[1].v for r in rules):
                    owner = ri
            if owner is not None and owner != rs_before.rho:
                return True
        decisions = st.aux.get('decisions', ())
        for r2 in range(len(self.names)):
            if r2 == rs_before.rho:
                continue
            o = Oracle(syms, decisions)
            rs2 = RefState(rs_before.p, r2, rs_before.ms, rs_before.done)
            it2, ev2, inf2 = ref_next(self.d, o, rs2)
            if got[0] == 'tok' and it2[0] == 'tok' and got[1].conc() and got[1].v == it2[1]:
                return True
            if got[0] == 'invalid' and it2[0] == 'invalid' and not st.events and not ev2:
                # the failure of another rule set: same failure, after examining exactly the characters that rule set
                # examines (e.g. the entry state of an empty rule set reads one character) - the active rule set's
                # reference does something else (caller)
                try:
                    inner = st.root()['lx'].f[0]
                    it = inner.f[self.F['__iter']]
                    pos = it.f[0].p[0]
                    peeked = it.f[1]
                    eff = pos - (1 if (peeked.v == 'Some' and peeked.f[0].v == 'Some') else 0)
                except Exception:
                    continue
                if eff == rs2.p:        # ref_next has advanced rs2 to the reference's position after the failure
                    return True
        return False

    def compare(self, st, val, cond, rs, item, events, info, ust_before, ndec_before, syms, ms_before=0, rs_before=None):
        ex = self.ex
        F = self.F
        out = []
        base_aspects = set()
        single_rule = self.d.nrules == 1
        if single_rule:
            base_aspects.add('lang')
        got = self.item_shape(val)
        rule_by_gid = {r.gid: r for _, rs_ in self.d.rulesets for r in rs_}
        involved = set(info.get('rules', []))
        if got[0] == 'tok' and got[1].conc():
            involved.add(got[1].v)
        for ev_ in st.events:
            if ev_[0].conc():
                involved.add(ev_[0].v)
        inv_rules = [rule_by_gid[g] for g in involved if g in rule_by_gid]

        def ends_eof(r):
            return r == ('eof',) or (r[0] == 'cat' and ends_eof(r[2])) or (r[0] in ('alt',) and (ends_eof(r[1]) or ends_eof(r[2]))) \
                or (r[0] in ('opt', 'var') and ends_eof(r[-1]))
        if any(r.ctx is not None for r in inv_rules):
            base_aspects.add('ctx')
        if any(ends_eof(r.regex) for r in inv_rules) or (got[0] == 'none') != (item[0] == 'none'):
            base_aspects.add('eof')

        in_post = [False]

        def mm(aspects, what, extra=None):
            self.stats['queries'] += 1
            m = self.best_model(cond + ([extra] if extra is not None else []))
            if m is None:
                return
            out.append(Mismatch(set(aspects), what, m, {'expected': self.describe(item), 'syms': dict(syms)}, post=in_post[0]))

        pending = []

        def sym_check(aspects, what, neq):
            """neq: z3 Bool that is true when implementation and reference differ (decided in one
            batch per path, split only if the batch is satisfiable)"""
            if isinstance(neq, bool):
                if neq:
                    mm(aspects, what)
                return
            pending.append((set(aspects), what, neq, in_post[0]))

        def flush():
            if not pending:
                return
            self.stats['queries'] += 1
            if ex.model(cond + [z3.Or(*[p[2] for p in pending])]) is None:
                return
            for aspects, what, neq, post in pending:
                self.stats['queries'] += 1
                m = self.best_model(cond + [neq])
                if m is not None:
                    out.append(Mismatch(aspects, what, m, {'expected': self.describe(item), 'syms': dict(syms)}, post=post))
        if item[0] == 'abort':
            mm(['match'], 'reference aborted: ' + item[1])
            return out
        # ---- item
        exp_kind = item[0]
        if got[0] != exp_kind or (exp_kind == 'tok' and (not got[1].conc() or got[1].v != item[1])):
            asp = {'match'} | base_aspects
            if got[0] in ('invalid',) or exp_kind == 'invalid':
                asp.add('error')
            if got[0] == 'custom' or exp_kind == 'custom':
                asp.add('error')
                asp.add('actions')
            # which other statements does the wrong item break?
            evs_ = st.events
            if len(evs_) != len(events) or any((not x[0].conc()) or x[0].v != e_[0] for x, e_ in zip(evs_, events)):
                asp.add('actions')          # an action ran (or did not run) for a match the reference does not select
            # does the implementation behave like a DIFFERENT rule set than the active one? (wrong rule set entered)
            try:
                if self.behaves_like_other_ruleset(got, rs_before, syms, st):
                    asp.add('ruleset')
            except (Need, RefAbort):
                pass
            try:
                lm_ = st.root()['lx'].f[0].f[F['last_match']]
                if not (isinstance(lm_, E) and lm_.v == 'None'):
                    # besides returning the wrong item the call leaves a saved match behind: a later failure replays it
                    # (items out of order, more items than characters)
                    asp.add('progress')
                    if got[0] == 'invalid':
                        asp.add('recover')
            except Exception:
                pass
            if got[0] == 'tok':
                # a token that does not start where this call's match started overlaps / reorders lexemes
                self.stats['queries'] += 1
                if ex.model(cond + [self.neq_loc(got[2], ms_before, syms, 'byte')]) is not None:
                    asp.add('loc')
            mm(asp, 'item: implementation %s, reference %s' % (self.got_text(got), self.describe(item)))
            flush()
            return out
        if exp_kind == 'tok':
            self.cover('token')
            if info.get('rewind'):
                self.cover('rewind')
            sym_check({'loc', 'match'}, 'token start byte index differs from the reference (lexeme start %d)' % item[2], self.neq_loc(got[2], item[2], syms, 'byte'))
            sym_check({'loc', 'match'}, 'token end byte index differs from the reference (lexeme end %d)' % item[3], self.neq_loc(got[3], item[3], syms, 'byte'))
            sym_check({'loc'}, 'token start line/column differ from the reference scan', self.neq_loc(got[2], item[2], syms, 'linecol'))
            sym_check({'loc'}, 'token end line/column differ from the reference scan', self.neq_loc(got[3], item[3], syms, 'linecol'))
        elif exp_kind == 'invalid':
            self.cover('invalid')
            sym_check({'errloc'}, 'InvalidToken location is not the lexeme start', self.neq_loc(got[1], item[1], syms))
        elif exp_kind == 'custom':
            self.cover('custom')
            sym_check({'error'}, 'Custom error payload differs', zi(got[1]) != self.err)
            sym_check({'errloc'}, 'Custom error location is not the lexeme start', self.neq_loc(got[2], item[1], syms))
        else:
            self.cover('none')
        # ---- action log
        evs = st.events
        if len(evs) != len(events):
            mm({'actions'} | base_aspects, 'action invocations: implementation %d, reference %d' % (len(evs), len(events)))
        else:
            for ev_, (gid, ms_, e_) in zip(evs, events):
                g, locs, peek = ev_[0], ev_[1], ev_[2]
                if len(ev_) > 3:
                    sl = ev_[3]
                    sym_check({'loc', 'actions'}, 'match_() does not start at the lexeme start byte', zi(sl.p[0]) != self.loc_at(ms_, syms)[2])
                    sym_check({'loc', 'actions'}, 'match_() does not end at the lexeme end byte', zi(sl.p[1]) != self.loc_at(e_, syms)[2])
                if not g.conc() or g.v != gid:
                    mm({'actions', 'match'}, 'action of rule %s ran, reference runs rule %d' % (g.v, gid))
                    break
                sym_check({'actions', 'loc'}, 'match_loc().0 inside the action of rule %d' % gid, self.neq_loc(locs.f[0], ms_, syms))
                sym_check({'actions', 'loc'}, 'match_loc().1 inside the action of rule %d' % gid, self.neq_loc(locs.f[1], e_, syms))
                # peek
                o = Oracle(syms, ())
                try:
                    nxt = o.sym(e_)
                except Need:
                    nxt = None
                if peek.v == 'None':
                    if nxt is None:
                        sym_check({'actions'}, 'peek() is None before the end of input', self.len > e_)
                    elif nxt != EOF:
                        mm({'actions'}, 'peek() is None before the end of input')
                else:
                    if nxt == EOF:
                        mm({'actions'}, 'peek() returned a character at end of input')
                    elif e_ < self.N:
                        sym_check({'actions'}, 'peek() is not the first unconsumed character', zi(peek.f[0]) != self.chars[e_])
        # ---- post-state
        in_post[0] = True
        inner = st.root()['lx'].f[0]
        stt, ini = inner.f[F['__state']], inner.f[F['__initial_state']]
        ent = self.entries()[rs.rho]
        done_v = inner.f[F['__done']]
        if not (stt.conc() and ini.conc() and stt.v == ent[0] and ini.v == ent[1]):
            if not (rs.done and done_v.conc() and done_v.v == 1):
                asp = {'ruleset'}
                if info.get('error'):
                    asp = {'recover'}
                mm(asp, 'after the call the lexer is in state %s / returns to state %s, the entry state of rule set %s is %s'
                   % (stt.v, ini.v, self.names[rs.rho], ent[0]))
        if not (done_v.conc() and bool(done_v.v) == rs.done):
            # after an error the following items must be the reference's (C08): a wrong done flag loses / adds the
            # end-of-input item that follows
            mm({'eof', 'recover'} if info.get('error') else {'eof'}, 'done flag is %s, reference: %s' % (done_v.v, rs.done))
        lm = inner.f[F['last_match']]
        if not (isinstance(lm, E) and lm.v == 'None'):
            if not rs.done:
                # after an error the lexer must continue "with an empty current match" and the following tokens must be
                # the reference's (C08): a saved match that survives the failing call is replayed by a later failure
                mm({'progress', 'recover'} if info.get('error') else {'progress'}, 'a saved match survives the call')
        it = inner.f[F['__iter']]
        pos = it.f[0].p[0]
        peeked = it.f[1]
        eff = pos - (1 if (peeked.v == 'Some' and peeked.f[0].v == 'Some') else 0)
        if eff != rs.p and not rs.done:
            asp = {'recover'} if info.get('error') else {'dropped', 'match'}
            mm(asp, 'input position after the call is %d, reference %d' % (eff, rs.p))
        if not rs.done:
            asp = {'recover'} if info.get('error') else {'loc'}
            sym_check(asp, 'match start after the call', self.neq_loc(inner.f[F['current_match_start']], rs.ms, syms))
            sym_check(asp, 'match end after the call', self.neq_loc(inner.f[F['current_match_end']], rs.p, syms))
        # ---- user state
        ust = inner.f[F['user_state']]
        ndec = len(st.aux.get('decisions', ())) - ndec_before
        exp_pos = ust_before.f[1].v + ndec
        if not (ust.f[1].conc() and ust.f[1].v == exp_pos and ust.f[3].conc() and ust.f[3].v == ust_before.f[3].v):
            mm({'actions'}, 'user state changed outside of actions')
        if info.get('unused_decisions'):
            mm({'actions'} | base_aspects, 'implementation ran more dynamic actions than the reference')
        flush()
        return out

    def real_width(self, cp):
        tab = self.width_table
        if tab is None:
            return 'unknown'
        import bisect
        i = bisect.bisect_right(self.width_keys, cp) - 1
        if i >= 0 and tab[i][0] <= cp <= tab[i][1]:
            return tab[i][2]
        return 1

    def best_model(self, conds):
        """a counterexample that (1) starts at Loc::ZERO if possible (replayable without hooks) and (2) does not
        rely on a display width that unicode-width does not actually give to the characters it uses: the width
        is an uninterpreted function, so facts about the characters of a candidate model are added (they are
        true statements about the environment) and the query is repeated"""
        zero = [self.Lline == 0, self.Lcol == 0, self.Lbyte == 0]
        for attempt in range(8):
            m = self.ex.model(conds + zero + self.width_facts)
            if m is None:
                m = self.ex.model(conds + self.width_facts)
            if m is None:
                return None
            if self.width_table is None:
                return m
            new = False
            n = m.eval(self.len, model_completion=True).as_long()
            for c in self.chars[:max(0, min(n, self.N))]:
                v = m.eval(c, model_completion=True).as_long()
                real = self.real_width(v)
                mn = z3.is_true(m.eval(SM.WIDTH_NONE(z3.IntVal(v)), model_completion=True))
                mv = m.eval(SM.WIDTH_VAL(z3.IntVal(v)), model_completion=True).as_long()
                if (real is None) != mn or (real is not None and mv != real):
                    fact = SM.WIDTH_NONE(z3.IntVal(v)) if real is None else z3.And(z3.Not(SM.WIDTH_NONE(z3.IntVal(v))), SM.WIDTH_VAL(z3.IntVal(v)) == real)
                    self.width_facts.append(fact)
                    new = True
            if not new:
                return m
        return m

    def cover(self, what):
        self.stats['covers'][what] = self.stats['covers'].get(what, 0) + 1

    def item_shape(self, val):
        if not isinstance(val, E):
            raise Inconclusive('next() returned %r' % (val,))
        if val.v == 'None':
            return ('none',)
        r = val.f[0]
        if r.v == 'Ok':
            t = r.f[0]
            return ('tok', t.f[1], t.f[0], t.f[2])
        err = r.f[0]
        loc, kind = err.f[0], err.f[1]
        if kind.v == 'InvalidToken':
            return ('invalid', loc)
        return ('custom', kind.f[0], loc)

    def got_text(self, got):
        if got[0] == 'tok':
            return 'tok %s' % (got[1].v,)
        return got[0]


def zi(s):
    """scalar -> z3 Int term"""
    return z3.IntVal(s.v) if isinstance(s.v, int) else s.v


# ------------------------------------------------------------------------------------------------
# concrete runs of the executor (validation against native code) and model concretisation

def fmt_loc_value(v):
    return '%d:%d:%d' % (v.f[0].v, v.f[1].v, v.f[2].v)


def concrete_run(h, cps, start_rho, prepeek, script, err, ncalls, widths):
    """run the MIR executor on a fully concrete input; output in the native driver's line format"""
    SM.CONCRETE_WIDTH = lambda cp: widths.get(cp, 1)
    try:
        ex = h.ex
        st = h.make_start(start_rho, symbolic=False, concrete=(cps, script, err))
        if prepeek:
            st, _ = h.one(ex.call_fn(st, h.fn(h.L + '_', 'peek'), [Ref(0, 'lx')]), 'peek')
        lines = []
        for _ in range(ncalls):
            st.events = []
            res = ex.call_fn(st, h.fn(h.L + '_', 'next'), [Ref(0, 'lx')])
            if len(res) != 1:
                return ['EXECUTOR-FORKED %d' % len(res)]
            kind, st, val = res[0]
            if kind == 'panic':
                return ['PANIC']
            for ev_ in st.events:
                g, locs, peek = ev_[0], ev_[1], ev_[2]
                l = 'A %d %s %s %s' % (g.v, fmt_loc_value(locs.f[0]), fmt_loc_value(locs.f[1]), '-' if peek.v == 'None' else str(peek.f[0].v))
                if len(ev_) > 3:
                    offs = st.aux['str_offsets']
                    a_, b_ = ev_[3].p[0].v, ev_[3].p[1].v
                    l += ' M' + '.'.join(str(x) for x in cps[offs.index(a_):offs.index(b_)])
                lines.append(l)
            got = h.item_shape(val)
            if got[0] == 'none':
                lines.append('I none')
            elif got[0] == 'tok':
                lines.append('I tok %d %s %s' % (got[1].v, fmt_loc_value(got[2]), fmt_loc_value(got[3])))
            elif got[0] == 'invalid':
                lines.append('I invalid %s' % fmt_loc_value(got[1]))
            else:
                lines.append('I custom %d %s' % (got[1].v, fmt_loc_value(got[2])))
        ust = st.root()['lx'].f[0].f[h.F['user_state']]
        lines.append('S %d %d' % (ust.f[1].v, ust.f[3].v))
        return lines
    finally:
        SM.CONCRETE_WIDTH = None


def concretize(h, model, decisions):
    """z3 model -> (code points, script, err, start location)"""
    def val(x, default=0):
        v = model.eval(x, model_completion=True)
        try:
            return v.as_long()
        except Exception:
            return default
    n = val(h.len)
    cps = [val(c, 97) for c in h.chars[:n]]
    return {'input': cps, 'script': list(decisions), 'err': val(h.err), 'L': [val(h.Lline), val(h.Lcol), val(h.Lbyte)]}
