"""Regex trees of lexgen's surface syntax, an independent reference semantics (Brzozowski
derivatives over a partition of the code-point space) and a printer to lexgen syntax.

Nothing here shares code with lexgen.  Built-in classes are taken from `builtin_ranges.json`
produced by a native helper from the Rust predicates themselves (not from char_ranges.rs).
"""
import itertools

MAXCP = 0x10FFFF
SUR_LO, SUR_HI = 0xD800, 0xDFFF
EOF = -1          # the end-of-input symbol


# ------------------------------------------------------------------------------------------------
# surface syntax (tuples)
#   ('chr', cp) ('str', (cp,...)) ('set', ((lo,hi),...)) ('any',) ('builtin', name) ('eof',)
#   ('star', r) ('plus', r) ('opt', r) ('cat', a, b) ('alt', a, b) ('diff', a, b) ('var', name, r)

def lit(cp):
    if cp == 0x27:
        return "'\\''"
    if cp == 0x5C:
        return "'\\\\'"
    if cp == 0x0A:
        return "'\\n'"
    if cp == 0x09:
        return "'\\t'"
    if cp == 0x0D:
        return "'\\r'"
    if 0x20 <= cp < 0x7F:
        return "'%s'" % chr(cp)
    return "'\\u{%x}'" % cp


def strlit(cps):
    out = []
    for cp in cps:
        if cp == 0x22:
            out.append('\\"')
        elif cp == 0x5C:
            out.append('\\\\')
        elif cp == 0x0A:
            out.append('\\n')
        elif cp == 0x09:
            out.append('\\t')
        elif 0x20 <= cp < 0x7F:
            out.append(chr(cp))
        else:
            out.append('\\u{%x}' % cp)
    return '"' + ''.join(out) + '"'


def show(r, ctx=0):
    """print with the parentheses lexgen's grammar needs.  ctx: 0 top/alt operand, 1 cat operand,
    2 postfix operand, 3 diff operand"""
    k = r[0]
    if k == 'chr':
        return lit(r[1])
    if k == 'str':
        return strlit(r[1])
    if k == 'set':
        parts = []
        for lo, hi in r[1]:
            parts.append(lit(lo) if lo == hi else '%s-%s' % (lit(lo), lit(hi)))
        return '[' + ' '.join(parts) + ']'
    if k == 'any':
        return '_'
    if k == 'builtin':
        return '$$' + r[1]
    if k == 'eof':
        return '$'
    if k == 'var':
        return '$' + r[1]
    if k in ('star', 'plus', 'opt'):
        s = show(r[1], 2) + {'star': '*', 'plus': '+', 'opt': '?'}[k]
        return '(%s)' % s if ctx >= 3 else s
    if k == 'diff':
        # `#` is left associative in lexgen's grammar: a chain is printed without parentheses on the left, so that the
        # real parser's associativity is part of what is checked
        left = show(r[1], 0) if r[1][0] == 'diff' else show(r[1], 3)
        s = '%s # %s' % (left, show(r[2], 3))
        return '(%s)' % s if ctx >= 3 else s
    if k == 'cat':
        s = '%s %s' % (show(r[1], 1), show(r[2], 1))
        return '(%s)' % s if ctx >= 2 else s
    if k == 'alt':
        s = '%s | %s' % (show(r[1], 0), show(r[2], 0))
        return '(%s)' % s if ctx >= 1 else s
    raise ValueError(r)


# ------------------------------------------------------------------------------------------------
# interval sets over scalar values

def norm(iv):
    iv = sorted((lo, hi) for lo, hi in iv if lo <= hi)
    out = []
    for lo, hi in iv:
        if out and lo <= out[-1][1] + 1:
            out[-1] = (out[-1][0], max(out[-1][1], hi))
        else:
            out.append((lo, hi))
    return out


def scalar_only(iv):
    out = []
    for lo, hi in norm(iv):
        if hi < SUR_LO or lo > SUR_HI:
            out.append((lo, hi))
        else:
            if lo < SUR_LO:
                out.append((lo, SUR_LO - 1))
            if hi > SUR_HI:
                out.append((SUR_HI + 1, hi))
    return out


def iv_union(a, b):
    return norm(list(a) + list(b))


def iv_diff(a, b):
    out = []
    for lo, hi in norm(a):
        cur = lo
        for blo, bhi in norm(b):
            if bhi < cur or blo > hi:
                continue
            if blo > cur:
                out.append((cur, blo - 1))
            cur = max(cur, bhi + 1)
            if cur > hi:
                break
        if cur <= hi:
            out.append((cur, hi))
    return norm(out)


ALL = [(0, SUR_LO - 1), (SUR_HI + 1, MAXCP)]
# the ASCII predicates are fixed by definition (documented ranges of char::is_ascii_*); all built-ins are
# replaced by the ranges computed natively from the Rust predicates once the harness crate is built
BUILTINS = {
    'ascii': [(0, 127)], 'ascii_alphabetic': [(65, 90), (97, 122)], 'ascii_alphanumeric': [(48, 57), (65, 90), (97, 122)],
    'ascii_control': [(0, 31), (127, 127)], 'ascii_digit': [(48, 57)], 'ascii_graphic': [(33, 126)],
    'ascii_hexdigit': [(48, 57), (65, 70), (97, 102)], 'ascii_lowercase': [(97, 122)],
    'ascii_punctuation': [(33, 47), (58, 64), (91, 96), (123, 126)], 'ascii_uppercase': [(65, 90)],
    'ascii_whitespace': [(9, 10), (12, 13), (32, 32)],
}


def charset(r):
    """code points of a character-class expression (None if r is not a class)"""
    k = r[0]
    if k == 'chr':
        return [(r[1], r[1])]
    if k == 'set':
        return scalar_only(r[1])
    if k == 'any':
        return list(ALL)
    if k == 'builtin':
        return scalar_only(BUILTINS[r[1]])
    if k == 'var':
        return charset(r[2])
    if k == 'alt':
        a, b = charset(r[1]), charset(r[2])
        return None if a is None or b is None else iv_union(a, b)
    if k == 'diff':
        a, b = charset(r[1]), charset(r[2])
        return None if a is None or b is None else iv_diff(a, b)
    return None


def atoms(r, out):
    """collect the interval sets of all character-level atoms of r"""
    k = r[0]
    if k in ('chr', 'set', 'any', 'builtin', 'diff'):
        out.append(tuple(charset(r)))
    elif k == 'str':
        for cp in r[1]:
            out.append(((cp, cp),))
    elif k in ('star', 'plus', 'opt'):
        atoms(r[1], out)
    elif k in ('cat', 'alt'):
        atoms(r[1], out)
        atoms(r[2], out)
    elif k == 'var':
        atoms(r[2], out)
    elif k == 'eof':
        pass
    else:
        raise ValueError(r)


class Partition:
    """classes of scalar values that no atom of the definition distinguishes"""

    def __init__(self, atom_sets):
        atom_sets = list(dict.fromkeys(atom_sets))
        pts = {0, SUR_LO, SUR_HI + 1, MAXCP + 1}
        for a in atom_sets:
            for lo, hi in a:
                pts.add(lo)
                pts.add(hi + 1)
        pts = sorted(pts)
        sig_of = {}
        self.intervals = []          # (lo, hi, class)
        self.classes = []            # class -> list of (lo, hi)
        for i in range(len(pts) - 1):
            lo, hi = pts[i], pts[i + 1] - 1
            if SUR_LO <= lo <= SUR_HI:
                continue
            sig = tuple(any(alo <= lo <= ahi for alo, ahi in a) for a in atom_sets)
            if sig not in sig_of:
                sig_of[sig] = len(self.classes)
                self.classes.append([])
            c = sig_of[sig]
            self.intervals.append((lo, hi, c))
            self.classes[c].append((lo, hi))
        self.n = len(self.classes)

    def class_of(self, cp):
        for lo, hi, c in self.intervals:
            if lo <= cp <= hi:
                return c
        raise ValueError('not a scalar value: %x' % cp)

    def classes_of_set(self, iv):
        out = set()
        for lo, hi, c in self.intervals:
            if any(alo <= lo and hi <= ahi for alo, ahi in iv):
                out.add(c)
        return frozenset(out)

    def representative(self, c):
        return self.classes[c][0][0]


# ------------------------------------------------------------------------------------------------
# core regexes over class symbols, derivatives

EMPTY = ('0',)
EPS = ('1',)


def sym(cs):
    return ('s', cs) if cs else EMPTY


def cat(a, b):
    if a == EMPTY or b == EMPTY:
        return EMPTY
    if a == EPS:
        return b
    if b == EPS:
        return a
    return ('c', a, b)


def alt(*xs):
    s = set()
    for x in xs:
        if x == EMPTY:
            continue
        if x[0] == 'a':
            s |= x[1]
        else:
            s.add(x)
    if not s:
        return EMPTY
    if len(s) == 1:
        return next(iter(s))
    return ('a', frozenset(s))


def star(a):
    if a in (EMPTY, EPS):
        return EPS
    if a[0] == '*':
        return a
    return ('*', a)


def nullable(r):
    k = r[0]
    if k == '1' or k == '*':
        return True
    if k == '0' or k == 's':
        return False
    if k == 'c':
        return nullable(r[1]) and nullable(r[2])
    if k == 'a':
        return any(nullable(x) for x in r[1])
    raise ValueError(r)


_dcache = {}


def deriv(r, s):
    key = (r, s)
    v = _dcache.get(key)
    if v is not None:
        return v
    k = r[0]
    if k in ('0', '1'):
        v = EMPTY
    elif k == 's':
        v = EPS if s in r[1] else EMPTY
    elif k == 'c':
        v = cat(deriv(r[1], s), r[2])
        if nullable(r[1]):
            v = alt(v, deriv(r[2], s))
    elif k == 'a':
        v = alt(*[deriv(x, s) for x in r[1]])
    elif k == '*':
        v = cat(deriv(r[1], s), r)
    else:
        raise ValueError(r)
    _dcache[key] = v
    return v


def compile_re(r, part):
    k = r[0]
    if k in ('chr', 'set', 'any', 'builtin', 'diff'):
        return sym(part.classes_of_set(charset(r)))
    if k == 'str':
        out = EPS
        for cp in reversed(r[1]):
            out = cat(sym(part.classes_of_set([(cp, cp)])), out)
        return out
    if k == 'eof':
        return sym(frozenset([EOF]))
    if k == 'var':
        return compile_re(r[2], part)
    if k == 'star':
        return star(compile_re(r[1], part))
    if k == 'plus':
        x = compile_re(r[1], part)
        return cat(x, star(x))
    if k == 'opt':
        return alt(EPS, compile_re(r[1], part))
    if k == 'cat':
        return cat(compile_re(r[1], part), compile_re(r[2], part))
    if k == 'alt':
        cs = charset(r)
        return alt(compile_re(r[1], part), compile_re(r[2], part))
    raise ValueError(r)


def matches_empty(r):
    """surface regex matches the empty string (without consuming end-of-input)"""
    k = r[0]
    if k in ('star', 'opt'):
        return True
    if k == 'plus':
        return matches_empty(r[1])
    if k == 'cat':
        return matches_empty(r[1]) and matches_empty(r[2])
    if k == 'alt':
        return matches_empty(r[1]) or matches_empty(r[2])
    if k == 'var':
        return matches_empty(r[2])
    if k == 'str':
        return len(r[1]) == 0
    return False


class Auto:
    """deterministic automaton of a vector of regexes (one per rule), built lazily"""

    def __init__(self, res, nsyms):
        self.res = tuple(res)
        self.nsyms = nsyms
        self.trans = {}

    def start(self):
        return self.res

    def step(self, state, s):
        key = (state, s)
        v = self.trans.get(key)
        if v is None:
            v = tuple(deriv(r, s) for r in state)
            self.trans[key] = v
        return v

    @staticmethod
    def dead(state):
        return all(r == EMPTY for r in state)

    @staticmethod
    def accepting(state):
        return [i for i, r in enumerate(state) if nullable(r)]

    def extensible(self, state):
        """some symbol (a class or end-of-input) leads to a live state"""
        for s in list(range(self.nsyms)) + [EOF]:
            if not self.dead(self.step(state, s)):
                return True
        return False


# ------------------------------------------------------------------------------------------------
# second, independent matcher (positions reachable after matching a surface regex), used to
# cross-check the derivative automaton on all short class words

def ends(r, word, starts, part):
    """set of end positions of matches of surface regex r in `word` (list of class ids, EOF allowed
    as last symbol) beginning at any position in `starts`"""
    k = r[0]
    if k in ('chr', 'set', 'any', 'builtin', 'diff'):
        cs = part.classes_of_set(charset(r))
        return {i + 1 for i in starts if i < len(word) and word[i] in cs}
    if k == 'str':
        cur = set(starts)
        for cp in r[1]:
            c = part.class_of(cp)
            cur = {i + 1 for i in cur if i < len(word) and word[i] == c}
        return cur
    if k == 'eof':
        return {i + 1 for i in starts if i < len(word) and word[i] == EOF}
    if k == 'var':
        return ends(r[2], word, starts, part)
    if k == 'cat':
        return ends(r[2], word, ends(r[1], word, starts, part), part)
    if k == 'alt':
        return ends(r[1], word, starts, part) | ends(r[2], word, starts, part)
    if k == 'opt':
        return set(starts) | ends(r[1], word, starts, part)
    if k in ('star', 'plus'):
        cur = ends(r[1], word, starts, part) if k == 'plus' else set(starts)
        seen = set(cur)
        frontier = set(cur)
        while frontier:
            nxt = ends(r[1], word, frontier, part) - seen
            seen |= nxt
            frontier = nxt
        return seen
    raise ValueError(r)


def crosscheck(r, part, maxlen=3):
    """derivative automaton vs position-set matcher on all class words up to maxlen (+ optional EOF);
    -> None or a disagreeing word"""
    import itertools
    core = compile_re(r, part)
    syms = list(range(part.n))
    if part.n ** maxlen > 3000:
        maxlen = 2
    for n in range(maxlen + 1):
        for w in itertools.product(syms, repeat=n):
            for tail in ((), (EOF,)):
                word = list(w) + list(tail)
                d = core
                for s in word:
                    d = deriv(d, s)
                a = nullable(d)
                b = len(word) in ends(r, word, {0}, part)
                if a != b:
                    return word
    return None
