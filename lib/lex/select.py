"""Which definitions each property's check runs (the enumerated 'programs' dimension), bounds per
tier, vacuity rules."""
import itertools

from . import families as F
from .families import ch, st, cs, cat, alt, star, plus, opt, diff, ANY, EOFR, bi
from .spec import Rule, Def
from . import regex as R

DEFAULT_VARIANTS = ((False, False), (True, False), (False, True))     # (prepeek, done)


def uniq(defs):
    seen = set()
    out = []
    for d in defs:
        t = d.lexer_text('L')
        if t in seen:
            continue
        seen.add(t)
        out.append(d)
    return out


def rewind_biased(rng, name, nrules=None):
    """single rule set, `tok` rules that share prefixes: long rules whose failure must rewind to a
    shorter match (cycles and joins reachable with and without an earlier accept)"""
    alpha = ['a', 'b', 'c']
    n = nrules or rng.randrange(2, 6)
    rules = []
    for _ in range(n):
        k = rng.random()
        if k < 0.3:
            r = ch(rng.choice(alpha))
        elif k < 0.5:
            r = st(''.join(rng.choice(alpha) for _ in range(rng.randrange(2, 5))))
        elif k < 0.75:
            parts = []
            for _ in range(rng.randrange(2, 4)):
                q = rng.random()
                if q < 0.35:
                    parts.append(cs((rng.choice(['a', 'b']), rng.choice(['c', 'd']))))
                elif q < 0.6:
                    parts.append(st(''.join(rng.choice(alpha) for _ in range(rng.randrange(1, 4)))))
                elif q < 0.8:
                    parts.append(plus(cs((rng.choice(['a', 'b']), rng.choice(['c', 'd'])))))
                elif q < 0.9:
                    parts.append(alt(cs(('c', 'e')), st(''.join(rng.choice(alpha) for _ in range(2)))))
                else:
                    parts.append(star(ch(rng.choice(alpha))))
            r = cat(*parts)
            if R.matches_empty(r):
                r = cat(r, ch(rng.choice(alpha)))
        else:
            r = F.rand_rule_regex(rng, 2)
        rules.append(Rule(r, 'tok'))
    return Def(name, [('Init', rules)], tags=['rewind'])


def step_out_family():
    """a complete shorter rule and a longer rule that leaves the accepting state by one step into a state that does
    not accept yet, then fails: the step is a character / a range / a class of several ranges / `_`, the accepting state
    is reached by one character or by a loop, the state after the step continues by a character or a range"""
    out = []
    k = 0
    steps = [ch('x'), cs(('p', 't')), cs(('p', 'q'), ('s', 't'), 'v'), ANY]
    for head in (ch('a'), plus(cs(('0', '9'))), plus(ch('a'))):
        for step in steps:
            for last in (ch('y'), cs(('p', 't'))):
                rules = [Rule(head, 'tok'), Rule(cat(head, step, last), 'tok'), Rule(ch(' '), 'skip')]
                out.append(Def('so%d' % k, [('Init', rules)], tags=['rewind', 'stepout']))
                k += 1
    return out


def any_mid_family():
    """`_` (and `$`) transitions that leave a state other than the entry state of a rule set declared after Init, with a
    further rule set declared behind it: per-rule-set automata are concatenated and every kind of transition is renumbered"""
    out = []
    k = 0
    for pre in (ch('x'), st('xy'), plus(ch('x'))):
        for mid in (alt(cs('n', 't'), ANY), ANY, alt(ch('n'), EOFR), alt(ANY, EOFR)):
            eof_last = R.show(mid).endswith('$') or '$' in R.show(mid)
            body = cat(pre, mid) if not eof_last else cat(pre, mid)
            r1 = [Rule(body, 'tok'), Rule(ch('i'), 'sw', target='Init'), Rule(ch('j'), 'swret', target='R2')]
            r2 = [Rule(ch('a'), 'tok'), Rule(st('ab'), 'tok'), Rule(ch('i'), 'swret', target='Init')]
            init = [Rule(ch('a'), 'sw', target='R1'), Rule(ch('b'), 'tok'), Rule(ch('c'), 'swret', target='R2')]
            d = Def('am%d' % k, [('Init', init), ('R1', r1), ('R2', r2)], tags=['anymid', 'C03'])
            k += 1
            if d.wellformed():
                out.append(d)
    return out


def ctx_continue_family():
    """a rule `R > C` whose accepting state accepts only under the context, and a longer rule that runs on through
    characters the context allows and then needs one more: the scan goes on after the context held, fails in a state that
    does not accept, and must come back to the match saved under the context"""
    out = []
    k = 0
    for R_ in (ch('a'), plus(ch('a')), cs(('a', 'c'))):
        for C_, through in ((ch('b'), ch('b')), (cs(('b', 'd')), ch('c')), (ANY, ch('b')), (alt(ch('b'), EOFR), ch('b'))):
            for tail in (ch('x'), st('xy')):
                rules = [Rule(R_, 'tok', ctx=C_), Rule(cat(R_, through, tail), 'tok'), Rule(through, 'tok'), Rule(ch(' '), 'skip')]
                out.append(Def('cc%d' % k, [('Init', rules)], tags=['ctxcont', 'C04']))
                k += 1
    return out


def stale_family(rng, name, eof=False, qkinds=None, eof_kind=None):
    """shapes around the saved-match life cycle: a shorter candidate P is saved, a longer rule Q ends
    in a dead-end accept whose action continues / skips / switches / returns, and a later scan fails
    in a state that rewinds although nothing was accepted on the way (a join of an accepting and a
    non-accepting path, or an accepting state whose right context failed)"""
    cs_ = ['a', 'b', 'c', 'd', 'x', 'w', 'y', 'z', 'm']
    rng.shuffle(cs_)
    p, q, x, w, y, z, m = cs_[:7]
    qkind = rng.choice(qkinds or ['skip', 'cont', 'rcont', 'tok', 'ret', 'sw', 'dyn'])
    two_sets = qkind in ('sw', 'swret') or rng.random() < 0.3
    P = Rule(ch(p), rng.choice(['tok', 'ret']))
    if qkind in ('sw', 'swret'):
        Q = Rule(st(p + q), qkind, target='R1')
    elif qkind == 'dyn':
        Q = Rule(st(p + q), 'dyn', choices=[('cont', None), ('ret', None), ('rcont', None)])
    else:
        Q = Rule(st(p + q), qkind)
    X = Rule(ch(x), 'tok')
    if rng.random() < 0.7 or qkinds:
        J = Rule(cat(alt(ch(x), ch(w)), st(y + z) if (rng.random() < 0.6 or qkinds) else ch(y)), 'tok')
        tail = [X, J]
    else:
        # accepting state with transitions whose only accept has a right context
        tail = [Rule(plus(ch(x)), 'tok', ctx=ch(';')), Rule(cat(ch(x), ch(y), ch(z)), 'tok')]
    if rng.random() < 0.4:
        tail.append(Rule(ch(m), 'skip'))
    eof_rules = []
    if eof:
        eof_rules = [Rule(EOFR, eof_kind or rng.choice(['tok', 'ret']))] if (rng.random() < 0.7 or eof_kind) else [Rule(cat(ch(x), EOFR), 'tok')]
    if two_sets:
        init = [P, Q] + ([] if qkind in ('sw', 'swret') else tail) + eof_rules
        rng.shuffle(init)
        r1 = list(tail) + [Rule(ch(q), 'swret', target='Init')]
        rng.shuffle(r1)
        return Def(name, [('Init', init), ('R1', r1)], tags=['stale'])
    rules = [P, Q] + tail + eof_rules
    rng.shuffle(rules)
    return Def(name, [('Init', rules)], tags=['stale'])


def ctx_priority_family(rng, name):
    """several right-context rules on the same lexeme whose contexts can hold at the same time, next to a longer rule
    that keeps the accepting state non-terminal (saved-match path) and without one (accepting-transition path)"""
    x = rng.choice(['a', 'b', '-'])
    y = rng.choice(['c', 'd', '>'])
    ctxs = [cs(('0', '9')), alt(ANY, EOFR), ANY, cs(('0', '5'), 'c'), diff(ANY, ch(y)), cat(ANY, ANY), EOFR, star(ch(y)), cs(('a', 'd'), ('0', '9'))]
    rng.shuffle(ctxs)
    lex = ch(x) if rng.random() < 0.6 else plus(ch(x))
    rules = [Rule(lex, 'tok', ctx=ctxs[0]), Rule(lex, 'tok', ctx=ctxs[1])]
    if rng.random() < 0.5:
        rules.append(Rule(lex, 'tok', ctx=ctxs[2]))
    if rng.random() < 0.6:
        rules.append(Rule(lex, 'tok'))
    if rng.random() < 0.7:
        rules.insert(rng.randrange(len(rules) + 1), Rule(cat(ch(x), ch(y)), 'tok'))
    rules.append(Rule(ANY, 'tok'))
    return Def(name, [('Init', rules)], tags=['ctxprio'])


def local_let_family(rng):
    """the same variable name bound to different regexes in sibling rule sets (and at the top level), used in rules and
    in right contexts: a binding is visible in its own rule set only"""
    out = []
    binds = [(cs(('a', 'c')), cs(('x', 'z'))), (ch('x'), ch('y')), (plus(ch('a')), st('ab')), (cs('a', 'x'), diff(ANY, cs('a', 'x')))]
    for j, (ra, rb) in enumerate(binds):
        va = ('var', 'v', ra)
        vb = ('var', 'v', rb)
        # as right contexts
        d1 = Def('ll%dc' % j, [('Init', [Rule(ch('!'), 'sw', target='A'), Rule(ch('?'), 'sw', target='B'), Rule(ANY, 'tok')]),
                                ('A', [Rule(ch('a'), 'swret', target='Init', ctx=va), Rule(ANY, 'swret', target='Init')]),
                                ('B', [Rule(ch('a'), 'swret', target='Init', ctx=vb), Rule(ANY, 'swret', target='Init')])],
                 local_lets={'A': [('v', ra)], 'B': [('v', rb)]}, tags=['locallet'])
        # as rule regexes
        d2 = Def('ll%dr' % j, [('Init', [Rule(ch('!'), 'sw', target='A'), Rule(ch('?'), 'sw', target='B'), Rule(ANY, 'tok')]),
                                ('A', [Rule(cat(va, ch('.')), 'swret', target='Init'), Rule(ANY, 'swret', target='Init')]),
                                ('B', [Rule(cat(vb, ch('.')), 'swret', target='Init'), Rule(ANY, 'swret', target='Init')])],
                 local_lets={'A': [('v', ra)], 'B': [('v', rb)]}, tags=['locallet'])
        out += [d1, d2]
    return out


def nested_repetition_family():
    """nested `*` / `+` / `?` (the body of a repetition starts or ends with another repetition)"""
    ops = {'star': star, 'plus': plus, 'opt': opt}
    out = []
    j = 0
    for on, outer in ops.items():
        for inn, inner in ops.items():
            forms = [cat(ch('c'), outer(cat(inner(ch('a')), ch('b')))), cat(outer(cat(ch('b'), inner(ch('a')))), ch('c')),
                     cat(outer(alt(inner(ch('a')), ch('b'))), ch('c')), cat(ch('c'), outer(inner(ch('a'))), ch('b')),
                     cat(cs(('0', '9')), outer(cat(inner(ch('_')), cs(('0', '9')))))]
            for f in forms:
                if R.matches_empty(f):
                    continue
                out.append(Def('nr%d' % j, [('Init', [Rule(f, 'tok'), Rule(ANY, 'tok')])], tags=['C02', 'nested']))
                j += 1
    return out


def small_trees():
    """bounded-exhaustive regex trees over atoms a, b, [a-b], _ (<= 2 operators), as single-rule lexers"""
    atoms = [ch('a'), ch('b'), cs(('a', 'b')), ANY, st('ab')]
    lvl1 = list(atoms)
    for a in atoms:
        lvl1 += [star(a), plus(a), opt(a)]
    for a, b in itertools.product(atoms[:4], repeat=2):
        lvl1 += [('cat', a, b), ('alt', a, b)]
    lvl2 = list(lvl1)
    small = atoms[:3]
    for a in lvl1:
        if a in atoms:
            continue
        lvl2 += [star(a), plus(a), opt(a)]
        for b in small:
            lvl2 += [('cat', a, b), ('cat', b, a), ('alt', a, b)]
    out = []
    seen = set()
    for r in lvl2:
        if R.matches_empty(r):
            r = ('cat', r, ch('c'))
        if not F.ok_regex(r):
            continue
        t = R.show(r)
        if t in seen:
            continue
        seen.add(t)
        out.append(r)
    return out


def rand_set(rng, universe='abcdefgh'):
    items = []
    for _ in range(rng.randrange(1, 4)):
        if rng.random() < 0.35:
            items.append(rng.choice(universe))
        else:
            i = rng.randrange(len(universe))
            j = min(len(universe) - 1, i + rng.randrange(0, 5))
            items.append((universe[i], universe[j]) if i != j else universe[i])
    # lexgen rejects a single character listed twice (C12); ranges may overlap, nest and repeat
    singles = [x for x in items if isinstance(x, str)]
    if len(singles) != len(set(singles)):
        items = [x for x in items if not isinstance(x, str)] + sorted(set(singles))
    return cs(*items)


def rand_class_expr(rng, depth):
    if depth <= 0 or rng.random() < 0.3:
        k = rng.random()
        if k < 0.7:
            return rand_set(rng)
        if k < 0.8:
            return ANY
        if k < 0.9:
            return ch(rng.choice('abcdefgh'))
        return bi(rng.choice(['ascii_lowercase', 'ascii_alphanumeric', 'ascii_hexdigit']))
    if rng.random() < 0.75:
        return diff(rand_class_expr(rng, depth - 1), rand_class_expr(rng, depth - 1))
    return alt(rand_class_expr(rng, depth - 1), rand_class_expr(rng, depth - 1))


def class_defs(rng, thorough):
    """class expressions end to end (regex_to_range_map + RangeMap + code generation): `expr = 0, _ = 1` on one character"""
    exprs = [diff(cs(('0', '5'), ('7', '9')), cs(('0', '8'))), diff(cs(('a', 'z'), 'e'), ch('q')), diff(cs(('a', 'f'), ('c', 'd')), cs('x')),
             diff(ANY, cs(('a', 'z'), ('c', 'f'))), diff(cs(('0', '9'), ('a', 'z'), ('c', 'f'), ('A', 'Z')), cs('x', 'X')),
             diff(cs(('0', '9')), ch('0')), diff(cs(('0', '9')), cs('0', '1')), diff(diff(cs(('a', 'c'), ('k', 'p'), ('x', 'z')), cs(('e', 'k'))), ch('x')),
             diff(cs(('a', 'c'), ('e', 'g')), cs(('a', 'f'))), diff(cs('a', 'c', 'd'), cs(('a', 'c'))), diff(bi('ascii_alphanumeric'), bi('ascii_digit')),
             diff(alt(cs(('a', 'c')), cs(('b', 'e'))), cs(('c', 'd'))), diff(ANY, diff(ANY, cs(('b', 'd')))), diff(cs(('a', 'h')), diff(cs(('b', 'g')), cs(('d', 'e'))))]
    for _ in range(250 if thorough else 50):
        exprs.append(rand_class_expr(rng, 2))
    out = []
    seen = set()
    for e in exprs:
        if e[0] not in ('diff', 'alt'):
            e = diff(e, cs('~'))
        t = R.show(e)
        if t in seen or not R.charset(e) or not F.ok_regex(e):
            continue
        seen.add(t)
        out.append(Def('cl%d' % len(out), [('Init', [Rule(e, 'tok'), Rule(ANY, 'tok')])], tags=['class', 'C11'], nmax=1))
    # the property's second example: a difference followed by a literal
    out.append(Def('cl_seq', [('Init', [Rule(cat(diff(bi('ascii_alphabetic'), cs(('a', 'z'))), ch('x')), 'tok'), Rule(ANY, 'tok')])], tags=['class', 'C11'], nmax=2))
    return out


def overlap_family():
    """a literal character against a range (at its start / inside / at its end / outside), optionally with `_`,
    with diverging continuations: the char > range > any lookup order and the merging of range and any targets
    into char targets in the subset construction"""
    out = []
    j = 0
    for lo, hi in (('a', 'c'), ('b', 'c'), ('a', 'b'), ('a', 'd')):
        for c in ('a', 'b', 'c', 'd'):
            for with_any in (False, True):
                alts = [cat(cs((lo, hi)), ch('x')), cat(ch(c), ch('y'))]
                if with_any:
                    alts.append(cat(ANY, ch('z')))
                out.append(Def('ov%d' % j, [('Init', [Rule(alt(*alts), 'tok')])], tags=['C02', 'overlap']))
                j += 1
                # the same as separate rules (priorities instead of alternation)
                rules = [Rule(cat(ch(c), ch('y')), 'tok'), Rule(cat(cs((lo, hi)), opt(ch('x'))), 'tok')]
                if with_any:
                    rules.append(Rule(cat(ANY, ch('z')), 'tok'))
                out.append(Def('ovr%d' % j, [('Init', rules)], tags=['C01', 'overlap']))
                j += 1
    # keyword next to an identifier range
    out.append(Def('kw', [('Init', [Rule(st('zip'), 'tok'), Rule(plus(cs(('a', 'z'))), 'tok'), Rule(ch(' '), 'skip')])], tags=['C01', 'C02', 'overlap']))
    out.append(Def('kw2', [('Init', [Rule(plus(cs(('a', 'z'), ('0', '9'))), 'tok'), Rule(st('a9'), 'tok'), Rule(cat(ch('z'), ch('0')), 'tok')])], tags=['C01', 'C02', 'overlap']))
    return out


def c02_defs(rng, thorough):
    trees = small_trees()
    rng.shuffle(trees)
    n = 160 if thorough else 40
    defs = []
    for j, r in enumerate(trees[:n]):
        defs.append(Def('tree%d' % j, [('Init', [Rule(r, 'tok')])], tags=['C02']))
    # operator-law pairs are single-rule lexers with the same reference language
    laws = [plus(cs(('a', 'b'))), cat(cs(('a', 'b')), star(cs(('a', 'b')))), alt(ch('a'), st('ab')), alt(st('ab'), ch('a')),
            st('abc'), cat(ch('a'), ch('b'), ch('c')), ('var', 'v', alt(ch('a'), plus(ch('b')))), alt(ch('a'), plus(ch('b'))),
            cat(star(alt(ch('a'), st('bb'))), ch('c')), cat(opt(star(ch('a'))), ch('b')), cat(star(opt(ch('a'))), ch('b')),
            cat(ANY, cs(('a', 'c')), ch('b')), alt(cat(ch('a'), ANY), cat(cs(('a', 'b')), ch('x')), cat(ANY, ch('y'))),
            diff(cs(('a', 'z')), cs(('c', 'x'))), cat(diff(ANY, ch('a')), opt(ch('a'))),
            # string literals with multi-byte characters (first, middle, last position) next to their concatenations
            st('\u03bb'), ch('\u03bb'), st('a\u03bb'), cat(ch('a'), ch('\u03bb')), st('\u03bba'), st('\u2192\u2200'), cat(st('x\u00e9'), opt(ch('y'))),
            alt(st('\U00010348z'), st('z\U00010348')), plus(st('\u00e9'))]
    for j, r in enumerate(laws):
        lets = [('v', alt(ch('a'), plus(ch('b'))))] if 'var' in repr(r) else []
        defs.append(Def('law%d' % j, [('Init', [Rule(r, 'tok')])], lets=lets, tags=['C02']))
    ov = [d for d in overlap_family() if 'C02' in d.tags]
    defs += ov if thorough else ov[::2]
    nr = nested_repetition_family()
    defs += nr if thorough else nr[::2]
    for j in range(30 if thorough else 8):
        defs.append(Def('rtree%d' % j, [('Init', [Rule(F.rand_rule_regex(rng, 3), 'tok')])], tags=['C02']))
    for d in defs:
        d.tags.add('C02')
    return defs


def select(prop, thorough, rng):
    """-> (definitions, N, variants)"""
    cur = F.curated()
    N = 5 if thorough else 4
    variants = DEFAULT_VARIANTS
    defs = []

    def pick(*tags):
        return [d for d in cur if any(t in d.tags for t in tags)]
    nrand = 60 if thorough else 14
    if prop == 'C01':
        defs = pick('C01', 'rewind')
        defs += [rewind_biased(rng, 'rw%d' % j) for j in range(nrand * 2)]
        defs += [F.rand_def(rng, 'r%d' % j, nsets=1, kinds=['tok', 'tok', 'ret', 'skip'], tags=['C01']) for j in range(nrand // 2)]
        defs += [stale_family(rng, 'st%d' % j) for j in range(nrand // 2 + 3)]
        so = step_out_family()
        defs += so if thorough else so[1::2]
        ov = [d for d in overlap_family() if 'C01' in d.tags]
        defs += ov if thorough else ov[::3]
        defs += [ctx_priority_family(rng, 'cp%d' % j) for j in range(nrand // 2)]
        variants = ((False, False),)
    elif prop == 'C02':
        defs = pick('C02', 'C11') + c02_defs(rng, thorough)
        variants = ((False, False),)
        N = 5 if thorough else 4
    elif prop == 'C03':
        defs = pick('C03')
        kinds = ['tok', 'ret', 'skip', 'sw', 'sw', 'swret', 'swret', 'cont']
        defs += [F.rand_def(rng, 'rs%d' % j, nsets=rng.choice([2, 3, 3, 4]), kinds=kinds, maxrules=3, depth=1, tags=['C03'], empty_p=0.35) for j in range(nrand)]
        defs += [dyn_def(rng, 'dy%d' % j) for j in range(nrand // 3)]
        # a user error is not a failure of the lexer: the rule set stays (and a switch made before the Err holds)
        kf = ['tok', 'ret', 'sw', 'swret', 'ferr', 'ferr', 'fok', 'fcont']
        defs += [F.rand_def(rng, 'rf%d' % j, nsets=rng.choice([2, 3]), kinds=kf, maxrules=3, depth=1, tags=['C03']) for j in range(nrand // 3)]
        es = empty_set_family(rng)
        defs += es if thorough else es[:4]
        ll = local_let_family(rng)
        defs += ll if thorough else ll[4:8]
        defs += [stale_family(rng, 'st%d' % j, qkinds=(['sw', 'swret'] if j % 2 == 0 else None)) for j in range(nrand // 3 + 2)]
        am = any_mid_family()
        defs += am if thorough else am[::2]
    elif prop == 'C04':
        defs = pick('C04')
        defs += [F.rand_def(rng, 'cx%d' % j, nsets=rng.choice([1, 1, 2]), ctx_p=0.6, eof_p=0.05, kinds=['tok', 'tok', 'ret', 'skip', 'cont'], maxrules=4, depth=1, tags=['C04']) for j in range(nrand + nrand // 2)]
        defs += [ctx_priority_family(rng, 'cp%d' % j) for j in range(nrand // 2)]
        ll = local_let_family(rng)
        defs += ll if thorough else ll[:4]
        cc = ctx_continue_family()
        defs += cc if thorough else cc[1::3]
    elif prop == 'C05':
        defs = pick('C05')
        defs += [F.rand_def(rng, 'eo%d' % j, nsets=rng.choice([1, 2, 2]), eof_p=0.45, kinds=['tok', 'ret', 'skip', 'cont', 'sw', 'swret'], maxrules=4, depth=1, tags=['C05']) for j in range(nrand + nrand // 2)]
        defs += [stale_family(rng, 'se%d' % j, eof=True) for j in range(nrand // 2 + 2)]
    elif prop == 'C06':
        defs = pick('C06', 'rewind')
        defs += [loc_def(rng, 'lo%d' % j, text=(j % 2 == 0)) for j in range(nrand)]
        defs += [stale_family(rng, 'st%d' % j) for j in range(nrand // 2)]
        # spans after a user error: the lexeme of a fallible rule that returned Err must not overlap the next one
        defs += [F.rand_def(rng, 'lf%d' % j, nsets=1, kinds=['fok', 'ferr', 'ferr', 'tok', 'skip'], maxrules=4, depth=2, tags=['C06']) for j in range(nrand // 3)]
        defs += [fdyn_def(rng, 'ld%d' % j, logging=True) for j in range(nrand // 4)]
    elif prop == 'C07':
        defs = pick('C07', 'C01', 'C04')
        defs += [F.rand_def(rng, 'fe%d' % j, nsets=rng.choice([1, 2]), ctx_p=0.15, kinds=['fok', 'ferr', 'ferr', 'fcont', 'tok', 'skip', 'fok'], maxrules=4, depth=2, tags=['C07']) for j in range(nrand)]
        defs += [fdyn_def(rng, 'fd%d' % j) for j in range(nrand // 3)]
        defs += [stale_family(rng, 'st%d' % j, eof=(j % 2 == 0)) for j in range(nrand // 3)]
        # "a lexeme that has a valid (possibly shorter) match is never reported as an error": rewind shapes
        so = step_out_family()
        defs += so if thorough else so[::2]
        defs += [rewind_biased(rng, 'rw%d' % j) for j in range(nrand // 2)]
    elif prop == 'C08':
        defs = pick('C08')
        kinds = ['tok', 'ret', 'skip', 'sw', 'sw', 'swret', 'cont']
        defs += [F.rand_def(rng, 'rc%d' % j, nsets=rng.choice([2, 2, 3]), kinds=kinds, maxrules=3, depth=1, tags=['C08'], empty_p=0.2) for j in range(nrand)]
        defs += [dyn_def(rng, 'dr%d' % j) for j in range(nrand // 3)]
        defs += [stale_family(rng, 'st%d' % j, qkinds=(['sw', 'swret'] if j % 2 == 0 else None)) for j in range(nrand // 3 + 2)]
        # failures on the last character of the input with an Init `$` rule still to come
        defs += [stale_family(rng, 'se%d' % j, eof=True, eof_kind=('ret' if j % 2 else 'tok')) for j in range(nrand // 3 + 2)]
    elif prop == 'C09':
        defs = list(cur)
        defs += [F.rand_def(rng, 'pg%d' % j, ctx_p=0.2, eof_p=0.15, tags=['C09']) for j in range(nrand)]
        defs += [dyn_def(rng, 'dp%d' % j) for j in range(nrand // 3)]
        defs += [stale_family(rng, 'st%d' % j) for j in range(nrand // 2)]
        defs += [loc_def(rng, 'lt%d' % j, text=True) for j in range(nrand // 3)]
        cc = ctx_continue_family()
        defs += cc if thorough else cc[::3]
        defs += [F.rand_def(rng, 'px%d' % j, nsets=1, ctx_p=0.6, eof_p=0.05, kinds=['tok', 'tok', 'ret', 'skip', 'cont'], maxrules=4, depth=1, tags=['C09']) for j in range(nrand // 3)]
    elif prop == 'C10':
        defs = pick('C10')
        defs += [dyn_def(rng, 'da%d' % j) for j in range(nrand)]
        defs += [F.rand_def(rng, 'ak%d' % j, kinds=['ret', 'cont', 'rcont', 'skip', 'tok', 'sw', 'swret'], ctx_p=0.1, eof_p=0.1, tags=['C10']) for j in range(nrand // 2)]
        defs += [stale_family(rng, 'st%d' % j) for j in range(nrand // 2 + 3)]
        # end of input: a failure through backtrack() on the last character with a logging `$` rule in Init (an action
        # must not run for a match that was never selected, also not after the stream has ended)
        defs += [stale_family(rng, 'se%d' % j, eof=True, eof_kind='ret') for j in range(nrand // 3 + 2)]
        defs += [fdyn_def(rng, 'fa%d' % j, logging=True) for j in range(nrand // 3)]
        sg = sugar_family(rng)
        defs += sg if thorough else sg[:12]
    elif prop == 'C11':
        defs = class_defs(rng, thorough)
        variants = ((False, False),)
        N = 2
    elif prop == 'C13':
        defs = builtin_defs(thorough)
        variants = ((False, False),)
        N = 2       # capped per definition by Def.nmax (1 for the big tables in a loop)
    elif prop in ('C14', 'C15'):
        defs = pick('C03', 'C05', 'C07', 'C10', 'rewind')
        defs += [F.rand_def(rng, 'cc%d' % j, ctx_p=0.1, eof_p=0.1, tags=[prop]) for j in range(nrand // 2)]
        defs += [dyn_def(rng, 'cd%d' % j) for j in range(nrand // 4)]
        if prop == 'C14':
            variants = ((False, False),)
        else:
            # two binary-search tables in one lexer: state hidden outside the lexer value would be shared by clones
            t1 = cs(('a', 'b'), ('d', 'e'), ('g', 'h'), ('j', 'k'), ('m', 'n'), ('p', 'q'), ('s', 't'), ('v', 'w'), ('y', 'z'), ('0', '1'), ('3', '4'))
            t2 = cs(('A', 'B'), ('D', 'E'), ('G', 'H'), ('J', 'K'), ('M', 'N'), ('P', 'Q'), ('S', 'T'), ('V', 'W'), ('Y', 'Z'), ('5', '6'), ('8', '9'), 'c')
            defs.append(Def('cl_tables', [('Init', [Rule(plus(t1), 'tok'), Rule(plus(t2), 'tok'), Rule(ANY, 'tok')])], tags=[prop], nmax=2))
            # lexemes of several arbitrary characters in one call: state hidden behind the per-character bookkeeping
            # (locations, widths) would be shared by clones
            defs.append(Def('cl_any3', [('Init', [Rule(cat(ANY, ANY, ANY), 'tok'), Rule(ANY, 'tok')])], tags=[prop]))
            defs.append(Def('cl_word', [('Init', [Rule(plus(diff(ANY, ch(' '))), 'tok'), Rule(ch(' '), 'skip')])], tags=[prop]))
            defs.append(Def('cl_tables2', [('Init', [Rule(cat(t2, star(t1)), 'ret'), Rule(plus(t1), 'tok'), Rule(ch(' '), 'skip')])], tags=[prop], nmax=2))
    else:
        raise ValueError(prop)
    if prop in ('C03', 'C05', 'C08'):
        # the automata of the rule sets are concatenated: a transition or entry that is renumbered wrongly may point past
        # the last state (the macro panics) or into the rule set declared next (silent misbehaviour). A trailing rule set
        # that no action switches to keeps such indices inside the automaton, so the misbehaviour shows at run time
        import copy
        padded = []
        for d in defs:
            if len(d.rulesets) >= 2 and len(padded) < (30 if thorough else 10) and not d.local_lets:
                d2 = copy.deepcopy(d)
                d2.name = d.name + '_pad'
                d2.rulesets = list(d2.rulesets) + [('Pad', [Rule(st('padpad'), 'tok'), Rule(cat(ch('p'), ANY, ch('q')), 'tok')])]
                g = 0
                for _, rules_ in d2.rulesets:
                    for r_ in rules_:
                        r_.gid = g
                        g += 1
                d2.nrules = g
                d2._compiled = None
                padded.append(d2)
        defs += padded
    defs = [d for d in uniq(defs) if d.wellformed()]
    if thorough and prop in ('C01', 'C03', 'C05', 'C06', 'C08', 'C09', 'C10'):
        # cross-check of the inductive argument on real histories: whole-stream runs (up to 4 calls) from the
        # constructor state, all calls sharing the same <= N characters
        variants = tuple(variants) + ((False, False, 4),)
    return defs, N, variants


BUILTIN_NAMES = ['alphabetic', 'alphanumeric', 'ascii', 'ascii_alphabetic', 'ascii_alphanumeric', 'ascii_control', 'ascii_digit', 'ascii_graphic',
                 'ascii_hexdigit', 'ascii_lowercase', 'ascii_punctuation', 'ascii_uppercase', 'ascii_whitespace', 'control', 'lowercase', 'numeric',
                 'uppercase', 'whitespace', 'XID_Start', 'XID_Continue']
BIG_BUILTINS = {'alphabetic', 'alphanumeric', 'lowercase', 'numeric', 'uppercase', 'XID_Start', 'XID_Continue'}


def builtin_defs(thorough):
    """one lexer per built-in name: `$$name = 0, _ = 1` (name -> table mapping, table conversion, guard chain or
    binary-search table), plus combinations with other classes"""
    out = []
    quick_big = {'numeric', 'lowercase'}
    for n in BUILTIN_NAMES:
        if n in BIG_BUILTINS and not thorough and n not in quick_big:
            continue
        # `$$name` alone compiles to one arm per range (accepting transition); `$$name+` keeps a non-terminal target
        # state, which is where guard chains (<= 9 ranges) and binary-search tables (> 9 ranges) are generated
        out.append(Def('bi_' + n, [('Init', [Rule(plus(bi(n)), 'tok'), Rule(ANY, 'tok')])], tags=['builtin', 'C13'], nmax=1))
        if n not in BIG_BUILTINS or thorough:
            out.append(Def('bj_' + n, [('Init', [Rule(bi(n), 'tok'), Rule(cat(bi(n), ch('!')), 'tok'), Rule(ANY, 'tok')])], tags=['builtin', 'C13'], nmax=2 if n not in BIG_BUILTINS else 1))
    # two different binary-search tables in one lexer (a big class trimmed by another rule + the full class in a loop)
    out.append(Def('bi_two_tables', [('Init', [Rule(plus(cs(('a', 'f'))), 'tok'), Rule(plus(bi('lowercase')), 'tok'), Rule(ANY, 'tok')])], tags=['builtin', 'C13'], nmax=2))
    out.append(Def('bi_two_tables2', [('Init', [Rule(plus(bi('numeric')), 'tok'), Rule(cat(cs(('0', '4')), plus(bi('numeric'))), 'tok'), Rule(plus(bi('whitespace')), 'skip'), Rule(ANY, 'tok')])], tags=['builtin', 'C13'], nmax=2))
    # two DIFFERENT tables with the same number of ranges and the same first and last range: a range rule trims an inner
    # range of the class in the initial state, the loop state uses the whole class
    tt = cs(('a', 'b'), ('d', 'e'), ('g', 'h'), ('j', 'l'), ('n', 'o'), ('q', 'r'), ('t', 'u'), ('w', 'x'), ('z', 'z'), ('0', '1'), ('3', '4'))
    tt2 = cs(('a', 'b'), ('d', 'e'), ('g', 'h'), ('j', 'm'), ('o', 'p'), ('r', 's'), ('u', 'v'), ('x', 'y'), ('0', '1'), ('3', '4'), ('6', '7'))
    k = 0
    for trim in (cs(('j', 'k')), cs(('l', 'm')), cs(('j', 'j')) if False else cs(('j', 'l'))):
        for order in (0, 1):
            for tail in (None, ch('!')):
                r_trim = Rule(plus(trim) if tail is None else cat(trim, tail), 'tok')
                r_full = Rule(plus(tt2), 'tok')
                rules = [r_trim, r_full] if order == 0 else [r_full, r_trim]
                out.append(Def('bi_tt%d' % k, [('Init', rules + [Rule(ANY, 'tok')])], tags=['builtin', 'C13'], nmax=2))
                k += 1
    # unions of classes under `#`: a range of the left operand of `|` overlaps several ranges of the right one
    k = 0
    for A_, B_, C_ in ((bi('ascii_graphic'), bi('ascii_alphanumeric'), cs(('a', 'c'), 'x', '5')),
                       (bi('ascii_alphanumeric'), bi('ascii_graphic'), cs(('a', 'c'), 'x', '5')),
                       (cs(('a', 'z')), bi('ascii_hexdigit'), cs('b', 'e', '3')),
                       (bi('ascii_graphic'), bi('ascii_punctuation'), cs('!', '/', '~', '@')),
                       (cs(('0', 'z')), bi('ascii_alphanumeric'), cs('A', 'Z', 'a', '9'))):
        out.append(Def('bi_union%d' % k, [('Init', [Rule(diff(alt(A_, B_), C_), 'tok'), Rule(ANY, 'tok')])], tags=['builtin', 'C13'], nmax=1))
        k += 1
    out.append(Def('bi_combo1', [('Init', [Rule(diff(bi('ascii_alphanumeric'), cs(('a', 'f'), '0')), 'tok'), Rule(alt(bi('ascii_digit'), bi('ascii_punctuation')), 'tok'), Rule(ANY, 'tok')])], tags=['builtin', 'C13'], nmax=1))
    out.append(Def('bi_combo2', [('Init', [Rule(diff(bi('numeric'), bi('ascii_digit')), 'tok'), Rule(cat(bi('ascii_uppercase'), bi('ascii_lowercase')), 'tok'), Rule(ANY, 'tok')])], tags=['builtin', 'C13'], nmax=2))
    out.append(Def('bi_ws_ctx', [('Init', [Rule(ch('a'), 'tok', ctx=bi('whitespace')), Rule(ch('a'), 'tok', ctx=bi('numeric')), Rule(ANY, 'tok')])], tags=['builtin', 'C13'], nmax=2))
    return out


def sugar_family(rng):
    """the sugar forms `re,` and `re = t` on regexes that run through loops (non-inlined states) and end in a terminal
    accepting state, a non-terminal accepting state, or an alternation - in Init and in another rule set"""
    shapes = [cat(ch('#'), plus(cs(('0', '9'))), ch(';')), cat(st('--'), star(diff(ANY, ch('\n'))), ch('\n')), cat(ch('a'), star(alt(ch('b'), ch('c'))), ch('d')),
              cat(plus(st('ab')), ch('c')), plus(cs(('a', 'c'))), cat(ch('x'), opt(ch('y')), ch('z')), alt(st('ab'), cat(ch('a'), plus(ch('c')), ch('b')))]
    out = []
    for j, sh in enumerate(shapes):
        for kind in ('skip', 'tok'):
            other = Rule(plus(cs(('e', 'g'))), 'ret')
            d1 = Def('su%d%s' % (j, kind[0]), [('Init', [Rule(sh, kind), other, Rule(ch(' '), 'skip')])], tags=['sugar'])
            d2 = Def('sv%d%s' % (j, kind[0]), [('Init', [Rule(ch('>'), 'sw', target='R1'), other]),
                                              ('R1', [Rule(sh, kind), Rule(plus(cs(('e', 'g'))), 'swret', target='Init'), Rule(ch('<'), 'sw', target='Init')])], tags=['sugar'])
            out += [d1, d2]
    rng.shuffle(out)
    return out


def empty_set_family(rng):
    """empty rule sets (`rule E {}`) at every position after Init, with switches into the rule sets declared after them"""
    out = []
    for j in range(6):
        names = ['Init', 'A', 'B']
        pos = 1 + (j % 3)
        names.insert(pos, 'E')
        if j >= 3:
            names.insert(rng.randrange(1, len(names) + 1), 'E2')
        real = [n for n in names if not n.startswith('E')]
        sets = []
        for n in names:
            if n.startswith('E'):
                sets.append((n, []))
                continue
            rules = []
            for t in names:
                if t != n:
                    c = {'Init': 'i', 'A': 'a', 'B': 'b', 'E': 'e', 'E2': 'f'}[t]
                    rules.append(Rule(ch(c), rng.choice(['sw', 'swret']), target=t))
            rules.append(Rule(cat(ch('x'), opt(ch({'Init': '1', 'A': '2', 'B': '3'}[n]))), 'tok'))
            rng.shuffle(rules)
            sets.append((n, rules))
        out.append(Def('es%d' % j, sets, tags=['emptyset']))
    return out


def dyn_def(rng, name):
    """actions whose decision (return / continue / reset+continue / switch / switch_and_return) is a
    solver variable"""
    nsets = rng.choice([1, 2, 2, 3])
    names = ['Init'] + ['R%d' % i for i in range(1, nsets)]
    sets = []
    for si, n in enumerate(names):
        rules = []
        for _ in range(rng.randrange(2, 4)):
            r = F.rand_rule_regex(rng, 1)
            if rng.random() < 0.1:
                r = ('cat', r, EOFR)
            if rng.random() < 0.6:
                choices = [('ret', None), ('cont', None)]
                if rng.random() < 0.6:
                    choices.append(('rcont', None))
                if nsets > 1:
                    choices.append(('sw', rng.choice(names)))
                    if rng.random() < 0.5:
                        choices.append(('swret', rng.choice(names)))
                rng.shuffle(choices)
                rules.append(Rule(r, 'dyn', choices=choices))
            else:
                k = rng.choice(['tok', 'skip', 'ret'])
                rules.append(Rule(r, k))
        sets.append((n, rules))
    return Def(name, sets, tags=['dyn'])


def fdyn_def(rng, name, logging=False):
    rules = []
    for _ in range(rng.randrange(2, 5)):
        r = F.rand_rule_regex(rng, 2)
        if rng.random() < 0.5:
            choices = [('fok', None), ('ferr', None), ('fcont', None)]
            rng.shuffle(choices)
            rules.append(Rule(r, 'fdyn', choices=choices))
        else:
            rules.append(Rule(r, rng.choice(['fok', 'ferr', 'skip', 'tok'] if not logging else ['fok', 'ferr', 'ferr', 'fcont', 'fok'])))
    return Def(name, [('Init', rules)], tags=['fdyn'])


def loc_def(rng, name, text=False):
    """rules over newline / tab / multi-byte / wide / zero-width characters with rewinds"""
    pool = [ch('\n'), ch('\t'), ch('a'), ch(0xE9), ch(0x4E2D), ch(0x301), ch(0x1F600), ANY, cs(('a', 'c')), cs('\n', '\t', ' '),
            diff(ANY, cs('\n', 'a')), cs((0x4E00, 0x9FFF))]
    rules = []
    for _ in range(rng.randrange(2, 5)):
        n = rng.randrange(1, 4)
        parts = [rng.choice(pool) for _ in range(n)]
        if rng.random() < 0.3:
            parts[rng.randrange(n)] = plus(parts[0])
        r = cat(*parts) if n > 1 else parts[0]
        kind = rng.choice(['ret', 'ret', 'tok', 'skip', 'cont', 'rcont', 'mret', 'mret'] if text else ['ret', 'ret', 'tok', 'skip', 'cont', 'rcont'])
        rules.append(Rule(r, kind))
    if text:
        # a word-like rule over arbitrary characters whose action reads match_() (the usual identifier / string rule)
        word = plus(diff(ANY, cs('\n', '\t', ' '))) if rng.random() < 0.5 else cat(diff(ANY, cs('\n', ' ')), opt(ANY))
        rules.insert(rng.randrange(len(rules) + 1), Rule(word, 'mret'))
    return Def(name, [('Init', rules)], tags=['loc'])


NONTRIVIAL = {
    'C01': (['rewind'], 'a rewind to a saved shorter match was reached'),
    'C02': (['token'], 'a token was produced'),
    'C03': (['token'], 'a token was produced in a multi-rule-set definition'),
    'C04': (['token'], 'a token was produced with right contexts present'),
    'C05': (['none'], 'the end of the stream was reached'),
    'C06': (['token'], 'a token with locations was produced'),
    'C07': (['invalid'], 'an error item was produced'),
    'C08': (['invalid'], 'a failure (InvalidToken) was produced'),
    'C09': (['token'], 'a token was produced'),
    'C10': (['token'], 'an action ran and a token was produced'),
    'C11': (['token'], 'a token was produced'),
    'C13': (['token'], 'a token was produced'),
    'C14': (['token'], 'all four constructors were executed'),
    'C15': (['token'], 'a clone was taken after a token'),
}


def nontrivial(prop, covers):
    need = NONTRIVIAL.get(prop, (['token'], ''))[0]
    return all(covers.get(k, 0) > 0 for k in need)


def nontrivial_doc(prop):
    return NONTRIVIAL.get(prop, (None, 'a token was produced'))[1]


def expansion_failure_is_violation(prop, d, err):
    """a well-formed definition that the macro cannot turn into a lexer violates the properties
    whose subject is the failing construct (C04: any regex may serve as a right context)"""
    if prop == 'C04' and any(r.ctx is not None for _, rs in d.rulesets for r in rs) and 'did not terminate' not in err:
        return True
    return False


def expansion_key(err):
    if 'self' in err:
        return 'right-context-code-does-not-compile'
    return 'does-not-compile'
