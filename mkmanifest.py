#!/usr/bin/env python3
"""Regenerates MANIFEST.json from the table below (kept as code so that it always validates)."""
import json, os
HERE = os.path.dirname(os.path.abspath(__file__))

CLAIMED = {
 'C11': dict(
   text='Bounded symbolic execution of the real MIR of RangeMap::insert / insert_ranges / remove_ranges / Range::contains from an ARBITRARY valid map (inductive step), every path decided by z3 for all end points, values and code points; maps of at most K ranges (K=3 quick, 4 thorough).',
   note='Trusted: rustc MIR dump, the MIR executor (validated on every run against the natively compiled functions on concrete cases), z3, summaries of the std items called (Vec push/extend/iterators, cmp::min/max, Ord::cmp, RangeInclusive accessors, checked +/-). Outside the claim: maps with more than K ranges, the regex_to_range_map evaluation order (covered end to end by C02 lexers).',
   technique='MIR symbolic execution + z3 (integer encoding with explicit wrap-around), inductive step from arbitrary valid state, native replay',
   ref='DESIGN.md section 3 C11, section 1.2'),
}

NOT_YET = {}
NA = {
 'C12': 'Termination of the macro on all definitions, determinism of two expansions and rustc accepting the output are facts about hash-map work-list fixpoints and the proc-macro/rustc tool chain; no bounded data quantifier a solver could decide (DESIGN.md section 4).',
 'C16': 'Statement about syn::ParseStream recursive descent over token trees; the parser substrate (syn, proc_macro2 cursors) is beyond both engines and a solver would only re-enumerate printings (DESIGN.md section 4).',
 'C17': 'Rejections are panics behind hash-map lookups inside a proc-macro invocation and syn parse errors; same reason as C16 (DESIGN.md section 4).',
}

def main():
    props = [json.loads(l)['id'] for l in open(os.path.join(HERE, 'properties.jsonl'))]
    checks = []
    for pid in props:
        if pid in CLAIMED:
            c = CLAIMED[pid]
            checks.append({
                'property_id': pid,
                'quick_cmd': './check %s quick' % pid,
                'thorough_cmd': './check %s thorough' % pid,
                'evidence_file': 'evidence/%s.json' % pid,
                'replay_cmd_template': './check %s --replay {path}' % pid,
                'engine': c.get('engine', 'mirse'),
                'level_claimed': {'category': 'model_checking', 'text': c['text'], 'design_ref': c['ref']},
                'level_note': c['note'],
                'technique': c['technique'],
            })
    na = []
    for pid in props:
        if pid in CLAIMED:
            continue
        if pid in NA:
            na.append({'property_id': pid, 'reason': NA[pid]})
        else:
            na.append({'property_id': pid, 'reason': NOT_YET.get(pid, 'check not built yet in this revision of /verif (run-time engine under construction); no verdict is issued')})
    m = {
        'version': 1,
        'setup_cmd': './setup.sh',
        'hooks': {
            'guard': 'osa1_lexgen_verif',
            'enable': 'none needed: the checks read rustc MIR dumps of the unmodified sources (scratch crates symlink /repo files, path-depend on /repo/crates/lexgen and lexgen_util); no hook commits exist in /repo',
            'baseline_off_cmd': 'cd /repo && cargo test --workspace --no-fail-fast --offline',
            'source_commits': [],
            'add_only': True,
        },
        'engines': [
            {'name': 'mirse', 'path': 'lib/mirse', 'serves_properties': sorted(CLAIMED),
             'kind_free_text': 'path-based symbolic executor over rustc -Zunpretty=mir dumps regenerated from /repo on every run; z3 decides every branch and every post-condition; counterexamples replayed natively'},
        ],
        'checks': checks,
        'not_applicable': na,
        'notes': 'Exit codes: 0 held within stated bounds, 1 VIOLATION (natively replayed), 2 inconclusive. Scratch builds live in /verif/.work (git-ignored, recreated on demand).',
    }
    with open(os.path.join(HERE, 'MANIFEST.json'), 'w') as f:
        json.dump(m, f, indent=1)

if __name__ == '__main__':
    main()
