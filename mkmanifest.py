#!/usr/bin/env python3
"""Regenerates MANIFEST.json from the table below (kept as code so that it always validates)."""
import json, os
HERE = os.path.dirname(os.path.abspath(__file__))

LEX_NOTE = ('Trusted: rustc (macro expansion of the real proc macro + MIR dump), the MIR executor (validated on every run against the natively compiled '
            'lexers on concrete inputs), z3, summaries of the std items the runtime calls (Peekable, Option, RangeInclusive::contains, char::len_utf8), '
            'the reference interpreter (Brzozowski-derivative automaton, literal reading of README/property). unicode-width is an uninterpreted function. '
            'Outside the claim: lexer definitions not in the generated families, more than N remaining characters per next() call, '
            'more than 2 (quick) / 3 (thorough) dynamic action decisions inside one call, Loc fields within 4(N+1) of the integer limits, definitions over the per-definition time budget (listed in evidence).')
LEX_TECH = 'MIR symbolic execution of the macro-expanded lexer + lexgen_util against a reference interpreter, z3 decides every branch and comparison; inductive step from arbitrary boundary state; native replay'


def lex(text):
    return dict(text=text + ' Programs (lexer definitions) are enumerated/sampled; inputs (<= N remaining characters over all of char; N=4 quick, 5 thorough), start location, error payload and action decisions are solver variables; each call is checked from an arbitrary boundary state and shown to end in a boundary state again, so call histories of any length are covered by induction.',
                note=LEX_NOTE, technique=LEX_TECH, ref='DESIGN.md sections 2 and 3')


CLAIMED = {
 'C01': lex('Maximal munch / first-rule priority / rewind: item kind, rule id and lexeme of every next() call equal the reference tokenisation, on curated rewind definitions (incl. the quoted counterexample) and seeded random rule sets with shared prefixes.'),
 'C02': lex('Single-rule lexers over bounded-exhaustive small regex trees, operator-law pairs and random trees: the token length on every input equals the longest prefix in the documented language (so accept/reject of every string up to N is decided).'),
 'C03': lex('Multi-rule-set definitions with switch / switch_and_return / dynamic decisions: the item is one the active rule set produces (every action in the log of the implementation belongs to the rule set active when it ran; a wrong item that another rule set would produce counts as entering the wrong rule set; a user error does not change the rule set) and after every call __state == __initial_state == the entry state the real `switch` assigns to the rule set the reference is in.'),
 'C04': lex('Rules with right contexts of every shape (multi-character literals, sets, repetition, nullable, `$`): match iff the context matches the following input, lexeme/locations exclude the context, failed contexts fall through; a context the macro cannot compile is reported as a violation.'),
 'C05': lex('End-of-input protocol: `$` only at the end and zero-width, preferred over the same lexeme without it, None in Init at a boundary, error elsewhere, done flag absorbing, no character dropped (input position after each call equals the reference).'),
 'C06': lex('All Loc values of tokens, action invocations (match_loc) and the post-call match start/end equal the reference scan (newline, tab=4, uninterpreted display width, UTF-8 length) from a symbolic start location, incl. after rewinds.'),
 'C07': lex('InvalidToken exactly when the reference has no match; Custom(e) carries the symbolic payload unchanged; both located at the lexeme start.'),
 'C08': lex('After a failure: input position, empty match, rule set Init in both __state and __initial_state, user state untouched - the post-state is the Init boundary state, so by induction all later calls are the reference from there.'),
 'C09': lex('No panic / overflow / unreachable on any path of next() (compiler-inserted checks are real assertions in MIR), every path terminates within the step bound, the saved match is cleared, every call accounts for input or the single end-of-input event.'),
 'C10': lex('Action log (rule id, match_loc, peek) equals the reference for every decision history (return / continue / reset+continue / switch / switch_and_return / Ok / Err chosen by solver variables), one invocation per selected match, none for abandoned candidates, sugar forms as their desugaring, user state touched only by actions.'),
 'C14': lex('Constructor equivalence: the four real constructors (generated wrappers + lexgen_util) are executed on the same symbolic character sequence and equal user state; every field except `input` is decided equal (structurally / by z3) and equal to the initial boundary state B(Init, Loc::ZERO) from which the shared `next()` MIR (generic over the iterator type) is covered by the one-step results. Because the runtime reads `input`, each definition is also explored for one call from every boundary state constructed from &str (symbolic string) and from an iterator; a disagreement with the reference that only one of the two shows is reported, and replayed natively through all four constructors.'),
 'C15': lex('Clone: at every boundary state reached by one call from every start boundary state (all paths; after tokens, errors, switches, None/done) the real derived Clone code of the generated struct and of lexgen_util::Lexer is executed and the clone is decided structurally equal to the original and the original unchanged; Independence is also checked behaviourally: original and clone are driven over the same symbolic tail (alternately; and, when clone()/next() touch state outside the lexer value - Rc, thread-locals, static atomics are modelled in the state -, with the original running to the end first) and must yield equal items and equal action logs (rule, match_loc, peek). If such state is touched and the solver does not decide, the check is inconclusive.'),
 'C11': dict(
   text='Bounded symbolic execution of the real MIR of RangeMap::insert / insert_ranges / remove_ranges / Range::contains from an ARBITRARY valid map (inductive step), every path decided by z3 for all end points, values and code points; maps of at most K ranges (K=3 quick, 4 thorough); plus class expressions end to end (regex_to_range_map, code generation) through one-character lexers for curated and random expressions over overlapping / nested sets, `_`, built-ins, `|` and chained `#`.',
   note='Trusted: rustc MIR dump, the MIR executor (validated on every run against the natively compiled functions on concrete cases), z3, summaries of the std items called (Vec push/extend/iterators, cmp::min/max, Ord::cmp, RangeInclusive accessors, checked +/-). Outside the claim: maps with more than K ranges.',
   technique='MIR symbolic execution + z3 (integer encoding with explicit wrap-around), inductive step from arbitrary valid state, native replay',
   ref='DESIGN.md section 3 C11, section 1.2'),
 'C13': dict(
   text='Kani/CBMC harness per built-in: member(TABLE, c) == rust_predicate(c) for an arbitrary char c over the real char_ranges.rs tables and the real core/unicode_xid predicates (18 of 20 names; alphabetic and alphanumeric exceed the unwinding reach of CBMC in core::unicode skip_search and are decided by engine M instead: the predicate code is copied at run time from the nightly rust-src, explored path by path for a symbolic char, z3 decides table membership per path); plus name->table mapping and both generated lookup shapes (guard chain, binary-search table with the real generated binary_search) through engine M on lexers `$$name+`, `$$name`, combinations with `#`, `|`, right contexts (all characters; quick: 15 names, thorough: all 20).',
   note='Trusted: Kani 0.68/CBMC 6.11, the harness binary search (tables checked sorted natively), equality of the Unicode version of the core library Kani uses and the repository toolchain (asserted). For alphabetic/alphanumeric the predicate source is the nightly rust-src copy of core (same Unicode version as the repository toolchain, checked; the native exhaustive scan under the repository toolchain confirms); if that copy cannot be built the two tables are listed as not decided. slice::binary_search_by / binary_search_by_key are summarised by the probe sequence of the toolchain std implementation.',
   technique='Kani/CBMC bounded model checking of table lookup vs real predicate with symbolic char + MIR symbolic execution (z3) of one-rule lexers per built-in; native replay',
   ref='DESIGN.md section 3 C13', engine='kani'),
 'C18': dict(
   text='Inductive cut-point verification of the real MIR of generate_char_fn_ranges: predicate = uninterpreted function, loop counter arbitrary, vector abstracted by ghosts; base/step/exit obligations discharged by z3 - no bound on predicate or code points. Failing obligations give a concrete predicate replayed against the native generator.',
   note='Trusted: MIR executor, z3, std summaries (RangeInclusive iteration, char::try_from, Option::take/is_none, Vec::push), the invariant (part of the check; a too-weak invariant yields inconclusive, not a violation).',
   technique='MIR symbolic execution + z3, loop invariant at a cut point with uninterpreted predicate, native replay',
   ref='DESIGN.md section 3 C18'),
}

NOT_YET = {}
NA = {
 'C12': 'Termination of the macro on all definitions, determinism of two expansions and rustc accepting the output are facts about hash-map work-list fixpoints and the proc-macro/rustc tool chain; no bounded data quantifier a solver could decide (DESIGN.md section 4).',
 'C16': 'Statement about syn::ParseStream recursive descent over token trees; the parser substrate (syn, proc_macro2 cursors) is beyond both engines and a solver would only re-enumerate printings (DESIGN.md section 4).',
 'C17': 'Rejections are panics behind hash-map lookups inside a proc-macro invocation and syn parse errors; same reason as C16 (DESIGN.md section 4).',
}

def main():
    props = [json.loads(l)['id'] for l in open(os.path.join(HERE, 'properties.jsonl'))]
    checks = []
    for pid in props:
        if pid in CLAIMED:
            c = CLAIMED[pid]
            checks.append({
                'property_id': pid,
                'quick_cmd': './check %s quick' % pid,
                'thorough_cmd': './check %s thorough' % pid,
                'evidence_file': 'evidence/%s.json' % pid,
                'replay_cmd_template': './check %s --replay {path}' % pid,
                'engine': c.get('engine', 'mirse'),
                'level_claimed': {'category': 'model_checking', 'text': c['text'], 'design_ref': c['ref']},
                'level_note': c['note'],
                'technique': c['technique'],
            })
    na = []
    for pid in props:
        if pid in CLAIMED:
            continue
        if pid in NA:
            na.append({'property_id': pid, 'reason': NA[pid]})
        else:
            na.append({'property_id': pid, 'reason': NOT_YET.get(pid, 'check not built yet in this revision of /verif (run-time engine under construction); no verdict is issued')})
    m = {
        'version': 1,
        'setup_cmd': './setup.sh',
        'hooks': {
            'guard': 'osa1_lexgen_verif',
            'enable': 'none needed: the checks read rustc MIR dumps of the unmodified sources (scratch crates symlink /repo files, path-depend on /repo/crates/lexgen and lexgen_util); no hook commits exist in /repo',
            'baseline_off_cmd': 'cd /repo && cargo test --workspace --no-fail-fast --offline',
            'source_commits': [],
            'add_only': True,
        },
        'engines': [
            {'name': 'kani', 'path': 'lib/c13.py', 'serves_properties': ['C13'], 'kind_free_text': 'Kani 0.68 / CBMC 6.11 proof harnesses generated into a scratch crate that #[path]-includes /repo/crates/lexgen/src/char_ranges.rs'},
            {'name': 'mirse', 'path': 'lib/mirse', 'serves_properties': sorted(CLAIMED),
             'kind_free_text': 'path-based symbolic executor over rustc -Zunpretty=mir dumps regenerated from /repo on every run; z3 decides every branch and every post-condition; counterexamples replayed natively'},
        ],
        'checks': checks,
        'not_applicable': na,
        'notes': 'Exit codes: 0 held within stated bounds, 1 VIOLATION (natively replayed), 2 inconclusive. Scratch builds live in /verif/.work (git-ignored, recreated on demand).',
    }
    with open(os.path.join(HERE, 'MANIFEST.json'), 'w') as f:
        json.dump(m, f, indent=1)

if __name__ == '__main__':
    main()
